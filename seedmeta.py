#!/usr/bin/env python3
"""writes seeded/<id>/meta.json from the output of the seed batch (./seedtest.sh runs)"""
import json, os, re, sys
res = open(sys.argv[1]).read()
blocks = re.split(r'^=== ', res, flags=re.M)[1:]
for b in blocks:
    sid = b.split('\n', 1)[0].strip()
    pid = sid.split('-')[0]
    m = re.search(r'seed \S+ on \S+ -> exit (\d+)', b)
    rc = int(m.group(1)) if m else None
    obl = re.findall(r'obligation: (.*?) \| reproduced: (\w+)', b)
    notes = ''
    try:
        notes = open('/verif/seeded/%s/notes.txt' % sid).read().strip()
    except OSError:
        pass
    verdict = {1: 'caught (VIOLATION)', 2: 'undecided (exit 2: proof no longer goes through, no failing input found)', 0: 'missed (check passes)'}.get(rc, 'not run')
    meta = dict(seed=sid, breaks_property=pid, needs_to_manifest=notes,
                confirmed='patch applies to the tree it was written for, the 15-test suite passes with it, demo.cpp prints PASS without and FAIL/crash with the patch (re-run in a scratch worktree)',
                ran='./seedtest.sh %s %s   (scratch copy of /repo/Include with the patch, QX_REPO pointing at it)' % (sid, pid),
                check_exit=rc, verdict=verdict,
                failing_obligations=[dict(obligation=o, replayed_on_real_code=(r == 'True')) for o, r in obl][:4])
    with open('/verif/seeded/%s/meta.json' % sid, 'w') as f:
        json.dump(meta, f, indent=1)
    print(sid, verdict)
