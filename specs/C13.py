from lib_strutils import *

EXPLANATION = ('StringUtils::Hash enforced for keys of every length: the top bit of the result is always set (a live entry never has hash 0), '
               'only [key, key+length) is read, and the two-ended scan terminates.')
TRUSTED = []
ASSUMPTIONS = ['the map behaviour of HashTable/HArray/HList (chains, order, rehash) is NOT under contract: reachability along Next chains is outside CBMC contracts']


def jobs(tier):
    out = []
    chars = ['char'] if tier == 'quick' else list(CHARS)
    for c in chars:
        cn = 'StringUtils_Hash__%s' % c
        out.append(dict(name='Hash<%s>.never-zero' % c, unit=UNIT, fn=cn, roots=['Qentem::StringUtils::Hash<%s>' % c],
                        specs={cn: dict(buffers=[('key', 'length')],
                                        ensures=['(__CPROVER_return_value & 0x80000000u) != 0', '__CPROVER_return_value != 0'], assigns=[],
                                        loops={0: dict(invariant=['offset <= (unsigned long long)length + 1', 'length <= __CPROVER_loop_entry(length)'], decreases='((unsigned long long)length + 1) - offset',
                                                       assigns='offset, length, hash, base')})},
                        solver='cadical', timeout=300, must_have=['postcondition', 'loop_invariant_step', 'loop_decreases', 'pointer_dereference'],
                        clause='the hash of any key has its top bit set, so it is never 0 (0 marks a removed entry)'))
    return out


# ---- bounded model check of the real HList<StringView<char>> / HashTable code against an insertion-ordered set model ------------------
HT = 'HashTable__StringView__char_HLItem_T__StringView__char'
HL = 'HList__StringView__char'
QHT = 'Qentem::HashTable<Qentem::StringView<char>, Qentem::HLItem_T<Qentem::StringView<char>>>'
QHL = 'Qentem::HList<Qentem::StringView<char>>'
HUNIT = dict(driver='hlist.cpp')


def scenario_body(ops):
    """ops: list of ('I', k) | ('R', k) | ('S',) | ('C',); k is 0,1,2 or 'r' (symbolic key index)"""
    L = []
    for op in ops:
        k = op[1] if len(op) > 1 else None
        ks = 'r' if k == 'r' else str(k)
        if op[0] == 'I':
            L.append('  %s_Insert__const_char_p_const_unsigned_int(&h, &qx_keys[%s], 1u); m_insert(%s);' % (HL, ks, ks))
        elif op[0] == 'R':
            L.append('  %s_Remove__const_char_p_unsigned_int_c(&h.qx_base, &qx_keys[%s], 1u); m_remove(%s);' % (HT, ks, ks))
        elif op[0] == 'S':
            L.append('  %s_Sort(&h.qx_base, asc); m_sort(asc);' % HT)
        elif op[0] == 'C':
            L.append('  %s_Compress(&h.qx_base);' % HT)
        L.append('  qx_compare(&h);')
    return '\n'.join(L)


SCENARIOS = {
    'insert3-remove-sort': [('I', 0), ('I', 1), ('I', 2), ('R', 'r'), ('S',)],
    'insert-remove-reinsert-compress': [('I', 0), ('I', 1), ('R', 'r'), ('I', 'r'), ('C',), ('I', 2)],
    'duplicates-and-grow': [('I', 'r'), ('I', 'r'), ('I', 0), ('I', 1), ('I', 2), ('R', 1)],
}


def map_model_job(name, ops):
    body = scenario_body(ops)
    roots = [QHL + '::Insert(const char *, const unsigned int)', QHT + '::Has(const char *, const unsigned int)', QHT + '::Remove(const char *, unsigned int)',
             QHT + '::Sort', QHT + '::GetKey', QHT + '::ActualSize', QHT + '::~HashTable', QHT + '::Size', QHT + '::Compress',
             QHT + '::GetKeyIndex(unsigned int &, const char *, const unsigned int)']
    h = '''
static char qx_keys[3];
static unsigned int g_h[3];   /* symbolic hash per key: every collision pattern is explored; StringUtils::Hash itself is enforced separately */
unsigned int StringUtils_Hash__char(const char *key, unsigned int length) { return g_h[key - qx_keys] | 0x80000000u; }
static _Bool m_present[3];
static unsigned int m_order[3], m_n;      /* live keys in iteration order */

static void m_insert(unsigned int k) { if (!m_present[k]) { m_present[k] = 1; m_order[m_n] = k; m_n = m_n + 1; } }
static void m_remove(unsigned int k) {
  if (m_present[k]) { m_present[k] = 0; unsigned int j = 0; for (unsigned int i = 0; i < m_n; i++) if (m_order[i] != k) { m_order[j] = m_order[i]; j = j + 1; } m_n = j; }
}
static void m_sort(_Bool ascend) {
  for (unsigned int a = 0; a < 3; a++) for (unsigned int b = 0; b + 1 < m_n; b++) {
    _Bool swap = ascend ? (qx_keys[m_order[b]] > qx_keys[m_order[b + 1]]) : (qx_keys[m_order[b]] < qx_keys[m_order[b + 1]]);
    if (swap) { unsigned int t = m_order[b]; m_order[b] = m_order[b + 1]; m_order[b + 1] = t; }
  }
}

static void qx_compare(struct %(HL)s *h)
{
  struct %(HT)s *t = &h->qx_base;
  unsigned int live = 0;
  for (unsigned int k = 0; k < 3; k++) {
    _Bool has = %(HT)s_Has__const_char_p_const_unsigned_int_c(t, &qx_keys[k], 1u);
    __CPROVER_assert(has == m_present[k], "a key is found exactly when it was stored and not removed since");
    unsigned int idx;
    _Bool gi = %(HT)s_GetKeyIndex__unsigned_int_r_const_char_p_const_unsigned_int_c(t, &idx, &qx_keys[k], 1u);
    __CPROVER_assert(gi == m_present[k], "key-to-index lookup agrees with membership");
    if (gi) {
      const struct StringView__char *key = %(HT)s_GetKey(t, idx);
      __CPROVER_assert(key != 0 && key->length_ == 1 && key->storage_[0] == qx_keys[k], "index-to-key lookup returns the same key");
    }
  }
  __CPROVER_assert(%(HT)s_ActualSize(t) == m_n, "number of live entries");
  for (unsigned int i = 0; i < %(HT)s_Size(t); i++) {
    const struct StringView__char *key = %(HT)s_GetKey(t, i);
    if (key != 0) {
      __CPROVER_assert(live < m_n && key->length_ == 1 && key->storage_[0] == qx_keys[m_order[live]], "iteration visits live entries in first-insertion order (key order after a sort)");
      live = live + 1;
    }
  }
  __CPROVER_assert(live == m_n, "iteration visits every live entry");
}

void qx_harness(void)
{
  struct %(HL)s h;
  h.qx_base.hashTable_ = 0; h.qx_base.index_ = 0; h.qx_base.capacity_ = 0;   /* default member initialisers */
  char c0, c1, c2;
  __CPROVER_assume(c0 != c1 && c0 != c2 && c1 != c2);
  qx_keys[0] = c0; qx_keys[1] = c1; qx_keys[2] = c2;
  { unsigned int h0, h1, h2; g_h[0] = h0; g_h[1] = h1; g_h[2] = h2; }
  m_n = 0; m_present[0] = 0; m_present[1] = 0; m_present[2] = 0;
  unsigned int r; _Bool asc;
  __CPROVER_assume(r < 3);
%(BODY)s
  %(HT)s_dtor(&h.qx_base);
}
''' % dict(HT=HT, HL=HL, BODY=body)
    return dict(name='HList<StringView>.map-model.%s' % name, unit=HUNIT, fn=HT + '_dtor', roots=roots, specs={}, mode='raw', harness=h, cuts=['StringUtils_Hash__char'],
                solver='cadical', timeout=900, objbits=9, canary=False,
                cbmc_flags=['--unwind', '9', '--unwindset',
                            'Memory_Sort__0_HLItem_T__StringView__char_unsigned_int:4,Memory_Sort__m1_HLItem_T__StringView__char_unsigned_int:4', '--unwinding-assertions'],
                checks=['--no-standard-checks'],
                bounded='one operation sequence (%s) over 3 distinct one-unit keys with symbolic code units, symbolic choice of the removed key and of the sort direction; compared with the model after every operation; loops unwound to 12' % ' '.join(''.join(str(x) for x in op) for op in ops),
                must_have=['assertion'],
                clause='the real hash table agrees with an insertion-ordered set model after every operation (membership, key<->index, live count, iteration order), without leaks')


HIT = 'struct HLItem_T__StringView__char'
FN_GEN = HT + '_generateHash'


def generate_hash_job(cap=4):
    """bounded stand-in: the real HashTable::generateHash on every table of up to 4 slots (capacity 1, 2 or 4), symbolic hashes (0 = removed slot),
    arbitrary stale Next links; afterwards every live slot is reachable from its bucket head by following Next - which is what lookups by key rely on after
    a Sort, a Resize or a Compress"""
    extra = """
static _Bool qx_reach(struct %(HT)s *t, unsigned int k)
{
  %(HIT)s *st = (%(HIT)s *)(t->hashTable_ + t->capacity_);
  unsigned int cur = t->hashTable_[st[k].Hash & (t->capacity_ - 1u)];
  for (unsigned int n = 0; n < 5; n++) {
    if (cur == 0 || cur > t->index_) return 0;
    if (cur == k + 1u) return 1;
    cur = st[cur - 1u].Next;
  }
  return 0;
}
""" % dict(HT=HT, HIT=HIT)
    hs = ['__CPROVER_assume(o_self.capacity_ == 1 || o_self.capacity_ == 2 || o_self.capacity_ == 4 || o_self.capacity_ == 8); __CPROVER_assume(o_self.index_ <= o_self.capacity_);',
          'o_self.hashTable_ = (unsigned int *)malloc(o_self.capacity_ * (sizeof(unsigned int) + sizeof(%s))); __builtin_memset(o_self.hashTable_, 0, o_self.capacity_ * (sizeof(unsigned int) + sizeof(%s)));' % (HIT, HIT),
          '{ %s *qs = (%s *)(o_self.hashTable_ + o_self.capacity_); for (unsigned int qi = 0; qi < o_self.index_; qi++) { qs[qi].Hash = qx_hash[qi]; qs[qi].Next = qx_next[qi]; } }' % (HIT, HIT)]
    spec = dict(requires=['g_k < self->index_'], harness_setup=hs, native_both=True,
                obj_buffers=[('qx_hash', 'o_self.index_', 'unsigned int'), ('qx_next', 'o_self.index_', 'unsigned int')],
                ensures=['((%s *)(self->hashTable_ + self->capacity_))[g_k].Hash == 0 || qx_reach(self, g_k)' % HIT], assigns=[])
    return dict(name='HashTable.generateHash.reachability.capacity%d' % cap, unit=HUNIT, fn=FN_GEN, roots=[QHT + '::generateHash'], specs={FN_GEN: spec}, mode='harness',
                ghosts=[('unsigned int', 'g_k')], pre='static unsigned int *qx_hash; static unsigned int *qx_next;\n', extra=extra, fixed={'o_self.capacity_': cap},
                harness_K=4, harness_unwind=7, cex_K=4, cex_unwind=7, solver='cadical', timeout=600, objbits=9, must_have=['assertion'],
                bounded='every table of capacity %d with 0..%d slots in use,' % (cap, min(cap, 4)) + ' all hash values (0 marks a removed slot), arbitrary stale Next links',
                clause='after generateHash every live slot (hash not 0) is reachable from its bucket head along Next (so a key is found again after Sort / Resize / Compress rebuilt the chains)')


def rename_job():
    """bounded stand-in: the real HashTable::Rename on a table of capacity 4 holding three one-unit keys with symbolic hashes (every collision pattern),
    chains built by the real generateHash; any of the three keys is renamed to a fourth key with a symbolic hash; afterwards the real lookup finds the
    new key and the two untouched keys and does not find the old one"""
    FN_REN = HT + '_Rename__const_StringView__char_r_StringView__char_rr_c'
    FN_HAS = HT + '_Has__const_char_p_const_unsigned_int_c'
    h = '''
static char qx_keys[4];
static unsigned int g_h[4];   /* symbolic hash per key; StringUtils::Hash itself is enforced separately */
unsigned int StringUtils_Hash__char(const char *key, unsigned int length) { return g_h[key - qx_keys] | 0x80000000u; }
void qx_harness(void)
{
  struct %(HT)s t;
  char c0, c1, c2, c3;
  __CPROVER_assume(c0 != c1 && c0 != c2 && c0 != c3 && c1 != c2 && c1 != c3 && c2 != c3);
  qx_keys[0] = c0; qx_keys[1] = c1; qx_keys[2] = c2; qx_keys[3] = c3;
  { unsigned int h0, h1, h2, h3; g_h[0] = h0; g_h[1] = h1; g_h[2] = h2; g_h[3] = h3; }
  t.capacity_ = 4; t.index_ = 3;
  t.hashTable_ = (unsigned int *)malloc(4 * (sizeof(unsigned int) + sizeof(%(HIT)s)));
  __builtin_memset(t.hashTable_, 0, 4 * (sizeof(unsigned int) + sizeof(%(HIT)s)));
  %(HIT)s *st = (%(HIT)s *)(t.hashTable_ + 4);
  for (unsigned int i = 0; i < 3; i++) { st[i].Key.storage_ = &qx_keys[i]; st[i].Key.length_ = 1; st[i].Hash = g_h[i] | 0x80000000u; }
  %(GEN)s(&t);
  unsigned int a; __CPROVER_assume(a < 3);
  struct StringView__char from, to;
  from.storage_ = &qx_keys[a]; from.length_ = 1; to.storage_ = &qx_keys[3]; to.length_ = 1;
  _Bool ok = %(REN)s(&t, &from, &to);
  __CPROVER_assert(ok, "renaming a stored key to a key that is not stored succeeds");
  __CPROVER_assert(%(HAS)s(&t, &qx_keys[3], 1u), "the new key is found after the rename");
  __CPROVER_assert(!%(HAS)s(&t, &qx_keys[a], 1u), "the old key is no longer found");
  for (unsigned int k = 0; k < 3; k++) if (k != a) __CPROVER_assert(%(HAS)s(&t, &qx_keys[k], 1u), "the other keys are still found");
}
''' % dict(HT=HT, HIT=HIT, GEN=FN_GEN, REN=FN_REN, HAS=FN_HAS)
    return dict(name='HashTable.Rename.lookup-after-rename', unit=HUNIT, fn=FN_REN, roots=[QHT + '::Rename(const Qentem::StringView<char> &, Qentem::StringView<char> &&)',
                                                                                     QHT + '::Has(const char *, const unsigned int)', QHT + '::generateHash'],
                specs={}, mode='raw', harness=h, cuts=['StringUtils_Hash__char'], solver='cadical', timeout=600, objbits=9, canary=False,
                cbmc_flags=['--unwind', '6', '--unwinding-assertions'],
                bounded='capacity 4, three stored one-unit keys with symbolic code units and symbolic hashes (all collision patterns), any of them renamed to a fourth key with a symbolic hash',
                must_have=['assertion'],
                clause='after Rename the real lookup finds the new key and the untouched keys and not the old key')


def _table3(extra_keys=1):
    return """
static char qx_keys[4];
static unsigned int g_h[4];   /* symbolic hash per key; StringUtils::Hash itself is enforced separately */
unsigned int StringUtils_Hash__char(const char *key, unsigned int length) { return g_h[key - qx_keys] | 0x80000000u; }
static void qx_table3(struct %(HT)s *t)
{
  char c0, c1, c2, c3;
  __CPROVER_assume(c0 != c1 && c0 != c2 && c0 != c3 && c1 != c2 && c1 != c3 && c2 != c3);
  qx_keys[0] = c0; qx_keys[1] = c1; qx_keys[2] = c2; qx_keys[3] = c3;
  { unsigned int h0, h1, h2, h3; g_h[0] = h0; g_h[1] = h1; g_h[2] = h2; g_h[3] = h3; }
  t->capacity_ = 4; t->index_ = 3;
  t->hashTable_ = (unsigned int *)malloc(4 * (sizeof(unsigned int) + sizeof(%(HIT)s)));
  __builtin_memset(t->hashTable_, 0, 4 * (sizeof(unsigned int) + sizeof(%(HIT)s)));
  %(HIT)s *st = (%(HIT)s *)(t->hashTable_ + 4);
  for (unsigned int i = 0; i < 3; i++) { st[i].Key.storage_ = &qx_keys[i]; st[i].Key.length_ = 1; st[i].Hash = g_h[i] | 0x80000000u; }
  %(GEN)s(t);
}
""" % dict(HT=HT, HIT=HIT, GEN=FN_GEN)


def remove_job():
    """bounded stand-in: the real HashTable::Remove on a table of capacity 4 holding three one-unit keys with symbolic hashes (every collision pattern,
    so the removed entry is the head, the middle or the tail of its chain), chains built by the real generateHash; one key is removed, then a second one;
    after each removal the real lookup finds exactly the keys that were not removed, and the slot count is unchanged"""
    FN_REM = HT + '_Remove__const_char_p_unsigned_int_c'
    FN_HAS = HT + '_Has__const_char_p_const_unsigned_int_c'
    h = _table3() + '''
void qx_harness(void)
{
  struct %(HT)s t;
  qx_table3(&t);
  unsigned int a, b; __CPROVER_assume(a < 3 && b < 3 && a != b);
  %(REM)s(&t, &qx_keys[3], 1u);
  for (unsigned int k = 0; k < 3; k++) __CPROVER_assert(%(HAS)s(&t, &qx_keys[k], 1u), "removing a key that is not stored removes nothing");
  %(REM)s(&t, &qx_keys[a], 1u);
  __CPROVER_assert(!%(HAS)s(&t, &qx_keys[a], 1u), "a removed key is no longer found");
  for (unsigned int k = 0; k < 3; k++) if (k != a) __CPROVER_assert(%(HAS)s(&t, &qx_keys[k], 1u), "the other keys are still found after a removal");
  %(REM)s(&t, &qx_keys[b], 1u);
  __CPROVER_assert(!%(HAS)s(&t, &qx_keys[a], 1u) && !%(HAS)s(&t, &qx_keys[b], 1u), "removed keys stay removed");
  for (unsigned int k = 0; k < 3; k++) if (k != a && k != b) __CPROVER_assert(%(HAS)s(&t, &qx_keys[k], 1u), "the remaining key is still found after two removals");
  __CPROVER_assert(t.index_ == 3 && t.capacity_ == 4, "removal keeps the slots (order of the remaining entries is positional)");
}
''' % dict(HT=HT, REM=FN_REM, HAS=FN_HAS)
    return dict(name='HashTable.Remove.lookup-after-remove', unit=HUNIT, fn=FN_REM, roots=[QHT + '::Remove(const char *, unsigned int)',
                                                                                     QHT + '::Has(const char *, const unsigned int)', QHT + '::generateHash'],
                specs={}, mode='raw', harness=h, cuts=['StringUtils_Hash__char'], solver='cadical', timeout=600, objbits=9, canary=False,
                cbmc_flags=['--unwind', '6', '--unwinding-assertions'],
                bounded='capacity 4, three stored one-unit keys with symbolic code units and symbolic hashes (all collision patterns); an absent key, then any stored key, then any second stored key is removed',
                must_have=['assertion'],
                clause='after Remove the real lookup finds exactly the keys that were not removed (head, middle and tail of a chain)')


def insert_job():
    """bounded stand-in: the real HList::Insert (find + HashTable::insert, no growth) on the same table: a fourth key with a symbolic hash is inserted, and a
    stored key is inserted again; afterwards all four keys are found, the new key sits in the last slot, and the duplicate added nothing"""
    FN_INS = HL + '_Insert__const_char_p_const_unsigned_int'
    FN_HAS = HT + '_Has__const_char_p_const_unsigned_int_c'
    FN_GKI = HT + '_GetKeyIndex__unsigned_int_r_const_char_p_const_unsigned_int_c'
    h = _table3() + '''
void qx_harness(void)
{
  struct %(HL)s l;
  qx_table3(&l.qx_base);
  unsigned int a; __CPROVER_assume(a < 3);
  %(INS)s(&l, &qx_keys[a], 1u);
  __CPROVER_assert(l.qx_base.index_ == 3, "inserting a stored key adds no entry");
  %(INS)s(&l, &qx_keys[3], 1u);
  __CPROVER_assert(l.qx_base.index_ == 4 && l.qx_base.capacity_ == 4, "inserting a new key below capacity adds exactly one entry and does not grow");
  for (unsigned int k = 0; k < 4; k++) {
    unsigned int idx;
    __CPROVER_assert(%(HAS)s(&l.qx_base, &qx_keys[k], 1u), "every stored key is found after an insertion");
    __CPROVER_assert(%(GKI)s(&l.qx_base, &idx, &qx_keys[k], 1u) && idx == k, "every key keeps its insertion position");
  }
}
''' % dict(HL=HL, INS=FN_INS, HAS=FN_HAS, GKI=FN_GKI)
    return dict(name='HList.Insert.lookup-after-insert', unit=HUNIT, fn=FN_INS, roots=[QHL + '::Insert(const char *, const unsigned int)',
                                                                                 QHT + '::Has(const char *, const unsigned int)', QHT + '::generateHash',
                                                                                 QHT + '::GetKeyIndex(unsigned int &, const char *, const unsigned int)'],
                specs={}, mode='raw', harness=h, cuts=['StringUtils_Hash__char'], solver='cadical', timeout=600, objbits=9, canary=False,
                cbmc_flags=['--unwind', '6', '--unwinding-assertions'],
                bounded='capacity 4, three stored one-unit keys with symbolic code units and symbolic hashes (all collision patterns); a stored key and then a fourth key with a symbolic hash are inserted (no growth)',
                must_have=['assertion'],
                clause='after Insert the real lookup finds the new key and every old key at its insertion position; a duplicate adds nothing')


def grow_job(variant):
    """bounded stand-in for 'tombstones are dropped on resize and the chains rebuilt': on the capacity-4 table of three keys, any key a is removed, then
    (regrow) the fourth key is inserted (fills the last slot), and a is inserted again, which finds the table full and grows it through the real
    expand/resize/allocate/generateHash; or (compress) the real Compress shrinks the table to its two live entries.  Afterwards every stored key is found and
    key-to-index gives first-insertion order with the tombstone gone"""
    FN_INS = HL + '_Insert__const_char_p_const_unsigned_int'
    FN_REM = HT + '_Remove__const_char_p_unsigned_int_c'
    FN_HAS = HT + '_Has__const_char_p_const_unsigned_int_c'
    FN_GKI = HT + '_GetKeyIndex__unsigned_int_r_const_char_p_const_unsigned_int_c'
    if variant == 'regrow':
        body = '''
  %(INS)s(&l, &qx_keys[3], 1u);
  __CPROVER_assert(t->index_ == 4 && t->capacity_ == 4, "the fourth key fills the last slot, no growth yet");
  %(INS)s(&l, &qx_keys[a], 1u);
  __CPROVER_assert(t->index_ == 4 && t->capacity_ == 8, "growth doubles the capacity and drops the tombstone");
  for (unsigned int k = 0; k < 4; k++) {
    unsigned int idx;
    unsigned int want = (k == a) ? 3u : (k == 3u) ? 2u : (k > a ? k - 1u : k);
    __CPROVER_assert(%(HAS)s(t, &qx_keys[k], 1u), "every stored key is found after growth");
    __CPROVER_assert(%(GKI)s(t, &idx, &qx_keys[k], 1u) && idx == want, "after growth the entries are in first-insertion order (re-inserted key last)");
  }
'''
        roots_x = [QHL + '::Insert(const char *, const unsigned int)']
        fn = FN_INS
        decl = '  struct %(HL)s l;\n  struct %(HT)s *t = &l.qx_base;'
        what = 'the fourth key is inserted and the removed key is inserted again, which grows the full table from 4 to 8 through the real expand/resize'
    else:
        body = '''
  %(HT)s_Compress(t);
  __CPROVER_assert(t->index_ == 2 && t->capacity_ == 2, "Compress keeps exactly the live entries");
  __CPROVER_assert(!%(HAS)s(t, &qx_keys[a], 1u), "the removed key is not found after Compress");
  for (unsigned int k = 0; k < 3; k++) if (k != a) {
    unsigned int idx;
    __CPROVER_assert(%(HAS)s(t, &qx_keys[k], 1u), "every live key is found after Compress");
    __CPROVER_assert(%(GKI)s(t, &idx, &qx_keys[k], 1u) && idx == (k > a ? k - 1u : k), "after Compress the live entries keep their relative order");
  }
'''
        roots_x = [QHT + '::Compress']
        decl = '  struct %(HT)s tt;\n  struct %(HT)s *t = &tt;'
        fn = HT + '_Compress'
        what = 'the real Compress shrinks the table to its two live entries'
    h = _table3() + ('''
void qx_harness(void)
{
''' + decl + '''
  qx_table3(t);
  unsigned int a; __CPROVER_assume(a < 3);
  %(REM)s(t, &qx_keys[a], 1u);
''' + body + '''
}
''') % dict(HL=HL, HT=HT, INS=FN_INS, REM=FN_REM, HAS=FN_HAS, GKI=FN_GKI)
    return dict(name='HashTable.remove-then-%s' % variant, unit=HUNIT, fn=fn,
                roots=roots_x + [QHT + '::Remove(const char *, unsigned int)', QHT + '::Has(const char *, const unsigned int)', QHT + '::generateHash',
                                 QHT + '::GetKeyIndex(unsigned int &, const char *, const unsigned int)'],
                specs={}, mode='raw', harness=h, cuts=['StringUtils_Hash__char'], solver='cadical', timeout=900, objbits=9, canary=False,
                cbmc_flags=['--unwind', '6', '--unwindset', 'Memory_SetToZero__unsigned_int.0:34,Memory_SetToZero__unsigned_int.1:34', '--unwinding-assertions'],
                bounded='capacity 4, three stored one-unit keys with symbolic code units and symbolic hashes (all collision patterns); any stored key is removed, then ' + what,
                must_have=['assertion'],
                clause='a resize drops the tombstone and rebuilds the chains: every stored key is found and key-to-index gives first-insertion order')


def clear_job():
    """bounded stand-in: the real HashTable::Clear on the capacity-4 table of three keys, then the real HList::Insert of the fourth key and of any old key:
    nothing stored before the Clear is found, the two new entries are found at positions 0 and 1 (no stale bucket head or link survives the Clear)"""
    FN_INS = HL + '_Insert__const_char_p_const_unsigned_int'
    FN_HAS = HT + '_Has__const_char_p_const_unsigned_int_c'
    FN_GKI = HT + '_GetKeyIndex__unsigned_int_r_const_char_p_const_unsigned_int_c'
    h = _table3() + '''
/* HLItem_T<StringView<char>> has an implicit, trivial destructor (a pointer, a length, two integers): the extraction emits no body for it */
void HLItem_T__StringView__char_dtor(%(HIT)s *self) { }
void qx_harness(void)
{
  struct %(HL)s l;
  struct %(HT)s *t = &l.qx_base;
  qx_table3(t);
  unsigned int a, idx; __CPROVER_assume(a < 3);
  %(HT)s_Clear(t);
  __CPROVER_assert(t->index_ == 0 && t->capacity_ == 4, "Clear empties the table and keeps its capacity");
  for (unsigned int k = 0; k < 4; k++) __CPROVER_assert(t->hashTable_[k] == 0, "Clear leaves no bucket head behind");
  %(INS)s(&l, &qx_keys[3], 1u);
  %(INS)s(&l, &qx_keys[a], 1u);
  __CPROVER_assert(t->index_ == 2 && t->capacity_ == 4, "two entries after two insertions");
  __CPROVER_assert(%(GKI)s(t, &idx, &qx_keys[3], 1u) && idx == 0, "the first key inserted after Clear is found at position 0");
  __CPROVER_assert(%(GKI)s(t, &idx, &qx_keys[a], 1u) && idx == 1, "the second key inserted after Clear is found at position 1");
  for (unsigned int k = 0; k < 3; k++) if (k != a) __CPROVER_assert(!%(HAS)s(t, &qx_keys[k], 1u), "a key stored before Clear and not stored again is not found");
}
''' % dict(HL=HL, HT=HT, HIT=HIT, INS=FN_INS, HAS=FN_HAS, GKI=FN_GKI)
    return dict(name='HashTable.Clear.insert-after-clear', unit=HUNIT, fn=HT + '_Clear',
                roots=[QHT + '::Clear', QHL + '::Insert(const char *, const unsigned int)', QHT + '::Has(const char *, const unsigned int)', QHT + '::generateHash',
                       QHT + '::GetKeyIndex(unsigned int &, const char *, const unsigned int)'],
                specs={}, mode='raw', harness=h, cuts=['StringUtils_Hash__char'], solver='cadical', timeout=900, objbits=9, canary=False,
                cbmc_flags=['--unwind', '6', '--unwindset', 'Memory_SetToZero__unsigned_int.0:34,Memory_SetToZero__unsigned_int.1:34', '--unwinding-assertions'],
                bounded='capacity 4, three stored one-unit keys with symbolic code units and symbolic hashes (all collision patterns); Clear, then the fourth key and any old key are inserted',
                must_have=['assertion'],
                clause='Clear leaves no bucket head behind: keys stored before it are not found, keys inserted after it are found at their insertion positions')


_jobs_c13 = jobs


def jobs(tier):
    # the bounded map-model scenarios below do not fit: CBMC runs out of memory (14 GB) while converting the SSA of even one five-operation
    # scenario of the real HashTable code (quicksort recursion, chain walks, re-hash).  Kept for the record, not run.
    unfinished = [map_model_job(n, ops) for n, ops in SCENARIOS.items()]
    return _jobs_c13(tier) + [generate_hash_job(c) for c in (1, 2, 4, 8)] + [rename_job(), remove_job(), insert_job(), grow_job('regrow'), clear_job()]
