from lib_strutils import *

EXPLANATION = ('StringUtils::Hash enforced for keys of every length: the top bit of the result is always set (a live entry never has hash 0), '
               'only [key, key+length) is read, and the two-ended scan terminates.')
TRUSTED = []
ASSUMPTIONS = ['the map behaviour of HashTable/HArray/HList (chains, order, rehash) is NOT under contract: reachability along Next chains is outside CBMC contracts']


def jobs(tier):
    out = []
    chars = ['char'] if tier == 'quick' else list(CHARS)
    for c in chars:
        cn = 'StringUtils_Hash__%s' % c
        out.append(dict(name='Hash<%s>.never-zero' % c, unit=UNIT, fn=cn, roots=['Qentem::StringUtils::Hash<%s>' % c],
                        specs={cn: dict(buffers=[('key', 'length')],
                                        ensures=['(__CPROVER_return_value & 0x80000000u) != 0', '__CPROVER_return_value != 0'], assigns=[],
                                        loops={0: dict(invariant=['offset <= (unsigned long long)length + 1', 'length <= __CPROVER_loop_entry(length)'], decreases='((unsigned long long)length + 1) - offset',
                                                       assigns='offset, length, hash, base')})},
                        solver='cadical', timeout=300, must_have=['postcondition', 'loop_invariant_step', 'loop_decreases', 'pointer_dereference'],
                        clause='the hash of any key has its top bit set, so it is never 0 (0 marks a removed entry)'))
    return out
