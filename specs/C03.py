from lib_strutils import *

EXPLANATION = ('StringUtils::EscapeHTMLSpecialChars enforced as an exact transduction: the sequence of Stream::Write calls accounts for every input unit '
               'exactly once and in order; a unit is passed verbatim only inside a slice in which it is none of < > " \' and, if it is &, one of the five '
               'entities starts there and ends inside the same slice; every other unit is replaced by exactly its prescribed entity literal.')
TRUSTED = ['QV::GStream::Write is the call-protocol contract over ghost scalars (g_next, g_pending, g_pend_ent); that Write appends is the StringStream contract (C14)',
           'paper step: per-position admissibility for the arbitrary ghost position g_i gives whole-output HTML safety by concatenation of admissible pieces']
ASSUMPTIONS = ['routing of {var:}/{raw:} through the escaper inside Template.hpp is a static fact on the clang AST, not a CBMC obligation']

GH = [('unsigned int', 'g_next'), ('unsigned int', 'g_len'), ('unsigned int', 'g_i'), ('int', 'g_pending'), ('_Bool', 'g_pend_ent'), ('_Bool', 'g_pend_valid')]


def ent_at(q, rem):
    """one of the five entities starts at q and lies within rem units (written from the property text)"""
    def lit(s):
        return ' && '.join("%s[%d] == %d" % (q, i, ord(ch)) for i, ch in enumerate(s))
    return ('((%s > 5 && (%s || %s)) || (%s > 4 && %s) || (%s > 3 && (%s || %s)))' %
            (rem, lit('&quot;'), lit('&apos;'), rem, lit('&amp;'), rem, lit('&lt;'), lit('&gt;')))


def special(c):
    return '(%s == 60 || %s == 62 || %s == 34 || %s == 39)' % (c, c, c, c)


def admissible(q, rem):
    """unit q[0] may be passed verbatim when the slice still has rem units from q on"""
    return '(!%s && (%s[0] != 38 || %s))' % (special('%s[0]' % q), q, ent_at(q, rem))


def specs(c):
    G = 'g_StringUtils_HTMLSpecialChars_T__%s_%d_' % (c, {'char': 1, 'char16_t': 2, 'char32_t': 4, 'wchar_t': 4}[c])
    fn = 'StringUtils_EscapeHTMLSpecialChars__QV_GStream__%s_%s' % (c, c)
    wr = 'QV_GStream__%s_Write' % c
    slice_ok = 'length == 0 || __CPROVER_r_ok(str, ((__CPROVER_size_t)length) * sizeof(*str))'
    is_lit = lambda nm, ln: '(str == %s%s && length == %d)' % (G, nm, ln)
    any_lit = '(' + ' || '.join([is_lit('HTMLAnd', 5), is_lit('HTMLLess', 4), is_lit('HTMLGreater', 4), is_lit('HTMLQuote', 6), is_lit('HTMLSingleQuote', 6)]) + ')'
    write = dict(
        requires=[
            # either the next contiguous slice of the input ...
            '%s || (str == g_base + g_next && length <= g_len - g_next && g_next <= g_len)' % any_lit,
            '!%s ==> (%s)' % (any_lit, slice_ok),
            # ... in which the observed position, if covered, is admissible within the slice
            '(!%s && g_next <= g_i && g_i - g_next < length) ==> %s' % (any_lit, admissible('(str + (g_i - g_next))', '(length - (g_i - g_next))')),
            # or the literal prescribed for the single pending unit
            '%s ==> (g_pend_valid && g_next < g_len)' % any_lit,
            '%s ==> (g_pending == 38 && !g_pend_ent)' % is_lit('HTMLAnd', 5),
            '%s ==> g_pending == 60' % is_lit('HTMLLess', 4),
            '%s ==> g_pending == 62' % is_lit('HTMLGreater', 4),
            '%s ==> g_pending == 34' % is_lit('HTMLQuote', 6),
            '%s ==> g_pending == 39' % is_lit('HTMLSingleQuote', 6)],
        assigns=['g_next', 'g_pending', 'g_pend_ent', 'g_pend_valid'],
        ensures=[
            '%s ==> (g_next == __CPROVER_old(g_next) + 1 && !g_pend_valid)' % any_lit,
            '!%s ==> g_next == __CPROVER_old(g_next) + length' % any_lit,
            '(!%s && g_next < g_len) ==> (g_pend_valid && g_pending == (int)str[length] && g_pend_ent == %s)' % (any_lit, ent_at('(str + length)', '(g_len - g_next)')),
            '(!%s && g_next >= g_len) ==> !g_pend_valid' % any_lit],
    )
    L = lambda nm, ln: 'QX_LIT(str, %s%s, %d)' % (G, nm, ln)
    write['stub_body'] = '''
  _Bool is_and = %s, is_lt = %s, is_gt = %s, is_q = %s, is_sq = %s;
  if (is_and || is_lt || is_gt || is_q || is_sq) {
    __CPROVER_assert(g_pend_valid && g_next < g_len, "literal written while no input unit is pending");
    if (is_and) __CPROVER_assert(g_pending == 38 && !g_pend_ent, "&amp; written for a unit that is not a bare &");
    if (is_lt) __CPROVER_assert(g_pending == 60, "&lt; written for a unit that is not <");
    if (is_gt) __CPROVER_assert(g_pending == 62, "&gt; written for a unit that is not >");
    if (is_q) __CPROVER_assert(g_pending == 34, "&quot; written for a unit that is not a double quote");
    if (is_sq) __CPROVER_assert(g_pending == 39, "&apos; written for a unit that is not a single quote");
    g_next = g_next + 1; g_pend_valid = 0;
  } else {
    __CPROVER_assert(str == g_base + g_next && g_next <= g_len && length <= g_len - g_next, "slice is not the next contiguous part of the input");
    if (g_next <= g_i && g_i - g_next < length)
      __CPROVER_assert(%s, "unit passed verbatim is a special character or a bare &");
    g_next = g_next + length;
    if (g_next < g_len) { g_pend_valid = 1; g_pending = (int)str[length]; g_pend_ent = %s; } else { g_pend_valid = 0; }
  }''' % (L('HTMLAnd', 5), L('HTMLLess', 4), L('HTMLGreater', 4), L('HTMLQuote', 6), L('HTMLSingleQuote', 6),
         admissible('(str + (g_i - g_next))', '(length - (g_i - g_next))'), ent_at('(str + length)', '(g_len - g_next)'))
    main = dict(
        buffers=[('str', 'length')], refs=['stream'], harness_setup=['g_base = str; g_next = 0; g_len = length; g_pend_valid = 0;'],
        requires=['g_next == 0 && g_len == length && g_base == str && !g_pend_valid'],
        ensures=['g_next == length'],
        assigns=['g_next', 'g_pending', 'g_pend_ent', 'g_pend_valid'],
        loops={0: dict(
            invariant=['offset <= index && index <= length', 'g_next == offset',
                       '(offset <= g_i && g_i < index) ==> %s' % admissible('(str + g_i)', '(index - g_i)')],
            decreases='length - index',
            assigns='offset, index, g_next, g_pending, g_pend_ent, g_pend_valid')},
    )
    return fn, wr, {fn: main, wr: write}


def jobs(tier):
    out = []
    chars = ['char'] if tier == 'quick' else list(CHARS)
    for c in chars:
        fn, wr, sp = specs(c)
        out.append(dict(name='EscapeHTMLSpecialChars<%s>.transduction' % c, unit=UNIT, fn=fn,
                        roots=['Qentem::StringUtils::EscapeHTMLSpecialChars<QV::GStream<%s>, %s>' % (c, c)],
                        specs=sp, replace=[wr], ghosts=GH + [('const %s *' % CHARS[c], 'g_base')],
                        pre_unwindset='StringUtils_IsEqual__%s.0:7' % c,
                        pre='#define QX_LIT(p, lit, n) ((p) == (lit) && length == (n))\n',
                        native_pre='#define QX_LIT(p, lit, n) (length == (n) && !((p) >= g_base && (p) < g_base + g_len) && memcmp((p), (lit), (n) * sizeof(*(p))) == 0)\n',
                        cex_K=8, cex_unwind=12, solver='cadical', timeout=1500, objbits=10, split=12,
                        must_have=['postcondition', 'loop_invariant_step', 'loop_decreases', 'precondition'],
                        clause='{var:} escaping is the exact HTML-safe transduction of its input, for strings of every length'))
    return out


# ---- routing of {var:} output through the escaper (TemplateCore::renderVariable, real template text, value/stream cut) -------------
import lib_expr as LE

RV = LE.TC + '_renderVariable'
GETV = LE.TC + '_getValue'
WRITE = 'QV_GStream__char_Write'
ESC = 'StringUtils_EscapeHTMLSpecialChars__QV_GStream__char_char'
COPYV = 'QV_GValue_CopyValueTo__QV_GStream__char_void__QV_GStream__char_r_const_char_p_unsigned_int_'
ITEMS = 'Array__TemplateCore__char_QV_GValue_QV_GStream__char_LoopItem'


def routing_job():
    T_OFF = '(tag->Offset - 5u)'          # VariablePrefixLength = 5 ("{var:")
    LEN = '((unsigned int)tag->Length + 6u)'  # VariableFullLength = 6 ("{var:" + "}")
    main = dict(
        requires=['__CPROVER_is_fresh(self, sizeof(*self))', '__CPROVER_is_fresh(self->stream_, sizeof(*self->stream_))',
                  '__CPROVER_is_fresh(self->content_, self->length_)', '__CPROVER_is_fresh(tag, sizeof(*tag))', '__CPROVER_is_fresh(offset, sizeof(*offset))',
                  '__CPROVER_is_fresh(self->loops_items_, sizeof(*self->loops_items_))',
                  '__CPROVER_is_fresh(self->loops_items_->storage_, 256 * sizeof(*self->loops_items_->storage_))',
                  '__CPROVER_is_fresh(self->loops_items_->storage_[tag->Level].Key.storage_, self->loops_items_->storage_[tag->Level].Key.length_)',
                  # what the tag parser establishes: the tag lies inside the template and after the cursor
                  'tag->Offset >= 5u && *offset <= %s && (unsigned long long)%s + %s <= self->length_' % (T_OFF, T_OFF, LEN),
                  'g_raw == 0 && g_esc == 0'],
        ensures=['g_raw == 1', '*offset == %s + %s' % ('(__CPROVER_old(tag->Offset) - 5u)', '((unsigned int)__CPROVER_old(tag->Length) + 6u)')],
        assigns=['*offset', 'g_raw', 'g_esc'])
    write = dict(requires=['g_raw == 0 && g_esc == 0', 'length == 0 || __CPROVER_r_ok(str, length)'], assigns=['g_raw'], ensures=['g_raw == 1'],
                 stub_body='  __CPROVER_assert(g_raw == 0 && g_esc == 0, "raw Write after the literal text: {var:} output bypasses the escaper"); g_raw = g_raw + 1;')
    esc = dict(requires=['length == 0 || __CPROVER_r_ok(str, length)'], assigns=['g_esc'], ensures=['g_esc == __CPROVER_old(g_esc) + 1'],
               stub_body='  g_esc = g_esc + 1;')
    copyv = dict(requires=['string_function == (void *)&%s' % ESC], assigns=['g_esc'],
                 ensures=['__CPROVER_return_value == 0 || __CPROVER_return_value == 1', 'g_esc >= __CPROVER_old(g_esc)'],
                 stub_body='  __CPROVER_assert(string_function == (void *)&%s, "value printed without the HTML escaper"); _Bool b; return b;' % ESC)
    getv = dict(assigns=[], ensures=['__CPROVER_return_value == 0 || __CPROVER_is_fresh(__CPROVER_return_value, sizeof(*__CPROVER_return_value))'],
                stub_body='  return 0;')
    return dict(name='renderVariable<char>.routing', unit=LE.UNIT, fn=RV, roots=[LE.QTC + '::renderVariable'], cuts=[GETV, ESC],
                specs={RV: main, WRITE: write, ESC: esc, COPYV: copyv, GETV: getv}, replace=[WRITE, ESC, COPYV, GETV],
                ghosts=[('unsigned int', 'g_raw'), ('unsigned int', 'g_esc')], solver='cadical', timeout=600, objbits=10,
                must_have=['postcondition', 'precondition'],
                clause='every printing path of {var:} (value, loop key, fallback echo) goes through the HTML escaper; only the literal text before the tag is written raw')


_jobs_c03 = jobs


def jobs(tier):
    return _jobs_c03(tier) + [routing_job()]
