from lib_strutils import *

EXPLANATION = ('StringUtils::IsLess/IsGreater/IsEqual enforced against the lexicographic definition (first difference decides, '
               'a proper prefix sorts first) for buffers of every length; order lemmas over that specification.')
TRUSTED = []
ASSUMPTIONS = ['ghost statement "g_k = offset" is inserted by the lowering before each return of the comparison functions (ghost code, no effect on program state)']


def jobs(tier):
    out = []
    chars = ['char'] if tier == 'quick' else list(CHARS)
    for c in chars:
        for fn, less in (('IsLess', True), ('IsGreater', False)):
            cn = 'StringUtils_%s__%s' % (fn, c)
            out.append(dict(name='%s<%s>.lexicographic' % (fn, c), unit=UNIT, fn=cn, roots=['Qentem::StringUtils::%s<%s>' % (fn, c)],
                            specs={cn: cmp_spec(less)}, ghosts=GH_CMP, solver='cadical', timeout=240,
                            must_have=['postcondition', 'loop_invariant_step', 'loop_decreases'],
                            clause='strings compare lexicographically by code unit; a proper prefix sorts first'))
        cn = 'StringUtils_IsEqual__%s' % c
        out.append(dict(name='IsEqual<%s>.pointwise' % c, unit=UNIT, fn=cn, roots=['Qentem::StringUtils::IsEqual<%s>' % c],
                        specs={cn: eq_spec()}, ghosts=GH_CMP, solver='cadical', timeout=240,
                        must_have=['postcondition', 'loop_invariant_step', 'loop_decreases'],
                        clause='equality holds exactly when every code unit agrees'))
    return out


# ---- String operator families: plumbing onto IsLess / IsGreater / IsEqual, whose contracts carry the lexicographic meaning -----------
import lib_containers as LC

ST = 'String__char'
QST = 'Qentem::String<char>'
CMP_M = '(self->length_ < string->length_ ? self->length_ : string->length_)'


def st_wf(s):
    return ['__CPROVER_is_fresh(%s, sizeof(*%s))' % (s, s), '%s->length_ <= 0x1000000u' % s,
            '__CPROVER_is_fresh(%s->storage_, (__CPROVER_size_t)%s->length_ + 1)' % (s, s)]


def callee_cmp(less):
    sp = cmp_spec(less)
    sp = dict(sp)
    sp.pop('buffers'); sp.pop('loops'); sp.pop('ghost_returns')
    sp['requires'] = ['left_length == 0 || __CPROVER_r_ok(left, left_length)', 'right_length == 0 || __CPROVER_r_ok(right, right_length)', 'orEqual == 0 || orEqual == 1']
    return sp


def op_jobs():
    out = []
    for op, nm, less, oreq in (('<', 'lt', True, 0), ('<=', 'le', True, 1), ('>', 'gt', False, 0), ('>=', 'ge', False, 1)):
        fn = '%s_op_%s__const_%s_r_c' % (ST, nm, ST)
        callee = 'StringUtils_%s__char' % ('IsLess' if less else 'IsGreater')
        lt = 'self->storage_[g_k] < string->storage_[g_k]' if less else 'self->storage_[g_k] > string->storage_[g_k]'
        ln = 'self->length_ < string->length_' if less else 'self->length_ > string->length_'
        spec = dict(obj_buffers=[('o_self.storage_', 'o_self.length_ + 1', 'char'), ('o_string.storage_', 'o_string.length_ + 1', 'char')],
                    requires=st_wf('self') + st_wf('string'),
                    ensures=['g_k <= %s' % CMP_M, 'g_j < g_k ==> self->storage_[g_j] == string->storage_[g_j]',
                             'g_k < %s ==> self->storage_[g_k] != string->storage_[g_k]' % CMP_M,
                             '__CPROVER_return_value == ((g_k < %s && %s) || (g_k == %s && (%s || (%d && self->length_ == string->length_))))' % (CMP_M, lt, CMP_M, ln, oreq)],
                    assigns=['g_k'])
        out.append(dict(name='String<char>.operator%s' % op, unit=LC.UNIT, fn=fn, roots=['%s::operator%s(const %s &)' % (QST, op, QST)],
                        specs={fn: spec, callee: callee_cmp(less)}, replace=[callee], ghosts=GH_CMP, solver='cadical', timeout=300,
                        must_have=['postcondition', 'precondition'],
                        clause='String %s compares the two character sequences lexicographically (first difference decides, proper prefix first)' % op))
    return out


_jobs_c15 = jobs


def jobs(tier):
    return _jobs_c15(tier) + op_jobs()


def lemma_jobs():
    h = '''
void qx_harness(void)
{
  /* abstract first-difference witness shared by all five comparison contracts of one pair of strings */
  unsigned int la, lb, d; int a_d, b_d;
  unsigned int m = la < lb ? la : lb;
  __CPROVER_assume(d <= m);
  __CPROVER_assume(d < m ? a_d != b_d : 1);
  _Bool LT = (d < m && a_d < b_d) || (d == m && (la < lb));
  _Bool LE = (d < m && a_d < b_d) || (d == m && (la < lb || la == lb));
  _Bool GT = (d < m && a_d > b_d) || (d == m && (la > lb));
  _Bool GE = (d < m && a_d > b_d) || (d == m && (la > lb || la == lb));
  _Bool EQ = (d == m && la == lb);      /* IsEqual contract: every unit agrees and the lengths agree */
  __CPROVER_assert((LT + EQ + GT) == 1, "exactly one of a<b, a==b, a>b");
  __CPROVER_assert(LE == (LT || EQ), "<= is the union of < and ==");
  __CPROVER_assert(GE == (GT || EQ), ">= is the union of > and ==");
  __CPROVER_assert(LT == !GE && GT == !LE, "< is the complement of >=, > of <=");
}
'''
    return [dict(name='order-lemmas.trichotomy', unit=UNIT, fn='StringUtils_IsLess__char', roots=['Qentem::StringUtils::IsLess<char>'], specs={}, mode='raw', harness=h,
                 solver='cadical', timeout=120, canary=False, must_have=['assertion'],
                 clause='the five comparison contracts, instantiated at the first difference of a pair of strings, form a consistent total order (loop-free lemma over the contracts)')]


_jobs_c15b = jobs


def jobs(tier):
    # "lookups by key remain correct afterwards": Sort rebuilds the bucket chains with HashTable::generateHash (bounded stand-in shared with C13)
    import C13
    return _jobs_c15b(tier) + lemma_jobs() + [C13.generate_hash_job(c) for c in (2, 4)]
