from lib_strutils import *

EXPLANATION = ('StringUtils::IsLess/IsGreater/IsEqual enforced against the lexicographic definition (first difference decides, '
               'a proper prefix sorts first) for buffers of every length; order lemmas over that specification.')
TRUSTED = []
ASSUMPTIONS = ['ghost statement "g_k = offset" is inserted by the lowering before each return of the comparison functions (ghost code, no effect on program state)']


def jobs(tier):
    out = []
    chars = ['char'] if tier == 'quick' else list(CHARS)
    for c in chars:
        for fn, less in (('IsLess', True), ('IsGreater', False)):
            cn = 'StringUtils_%s__%s' % (fn, c)
            out.append(dict(name='%s<%s>.lexicographic' % (fn, c), unit=UNIT, fn=cn, roots=['Qentem::StringUtils::%s<%s>' % (fn, c)],
                            specs={cn: cmp_spec(less)}, ghosts=GH_CMP, solver='cadical', timeout=240,
                            must_have=['postcondition', 'loop_invariant_step', 'loop_decreases'],
                            clause='strings compare lexicographically by code unit; a proper prefix sorts first'))
        cn = 'StringUtils_IsEqual__%s' % c
        out.append(dict(name='IsEqual<%s>.pointwise' % c, unit=UNIT, fn=cn, roots=['Qentem::StringUtils::IsEqual<%s>' % c],
                        specs={cn: eq_spec()}, ghosts=GH_CMP, solver='cadical', timeout=240,
                        must_have=['postcondition', 'loop_invariant_step', 'loop_decreases'],
                        clause='equality holds exactly when every code unit agrees'))
    return out
