"""contracts for StringStream<char> (sequence view: length + ghost-indexed element)"""
UNIT = dict(driver='memory.cpp')
SS = 'StringStream__char'
QSS = 'Qentem::StringStream<char>'
COPY = 'Memory_Copy__unsigned_int'
GH = [('unsigned int', 'g_k'), ('char', 'g_old'), ('unsigned int', 'g_c')]


def wf_req(s='self', allocated=True):
    """representation invariant of a stream; two cases (is_fresh cannot sit under a disjunction)"""
    if allocated:
        return ['__CPROVER_is_fresh(%s, sizeof(*%s))' % (s, s), '%s->capacity_ != 0' % s,
                '__CPROVER_is_fresh(%s->storage_, %s->capacity_)' % (s, s),
                '%s->length_ <= %s->capacity_' % (s, s), '%s->capacity_ <= 0x10000000u' % s]
    return ['__CPROVER_is_fresh(%s, sizeof(*%s))' % (s, s), '%s->capacity_ == 0 && %s->storage_ == 0 && %s->length_ == 0' % (s, s, s)]


def wf_ens(s='self'):
    return ['%s->length_ <= %s->capacity_' % (s, s),
            '%s->capacity_ == 0 ==> (%s->storage_ == 0 && %s->length_ == 0)' % (s, s, s),
            '%s->capacity_ != 0 ==> __CPROVER_w_ok(%s->storage_, %s->capacity_)' % (s, s, s)]


def copy_callee():
    """Memory::Copy as a callee: the contract proved in the Memory::Copy jobs, instantiated at ghost g_c; regions must be separate objects"""
    return dict(requires=['size == 0 || (__CPROVER_w_ok(to, size) && __CPROVER_r_ok(from, size))',
                          # separate objects, or disjoint ranges of one object (both situations are enforced against Memory::Copy's body)
                          'size == 0 || !__CPROVER_same_object(to, from) || __CPROVER_POINTER_OFFSET(to) >= __CPROVER_POINTER_OFFSET(from) + (long long)size || '
                          '__CPROVER_POINTER_OFFSET(from) >= __CPROVER_POINTER_OFFSET(to) + (long long)size'],
                ensures=['g_c < size ==> ((const char *)to)[g_c] == ((const char *)from)[g_c]'],
                assigns=['size != 0: __CPROVER_object_upto(to, size)'])


KEEP = 'g_k < __CPROVER_old(self->length_) ==> self->storage_[g_k] == g_old'
OLDREQ = 'g_k < self->length_ ==> g_old == self->storage_[g_k]'
