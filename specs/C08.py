from lib_json import *
import lib_stringify as LS

EXPLANATION = ('JSONUtils::Escape enforced as an exact transduction into valid JSON string content: every input unit is accounted for once and in order; '
               'a unit is passed verbatim only inside a slice in which it is not a quote, not a backslash and not a control character below 0x20; '
               'every other unit is written as a valid JSON escape that denotes exactly that unit (short escape or \\\\uXXXX). '
               'The Value<char> stringifier (stringifyValue / stringifyArray / stringifyObject / Stringify, real template text with the verification stream) is enforced '
               'through its mutual recursion: every value but Undefined writes a text, a container of any size is written from its opener to its closer with no comma '
               'left before the closer, a pointer value writes the text of its target.')
TRUSTED = ['QV::GStream::Write and operator+= are call-protocol contracts over ghost scalars (g_next, g_pending, g_state, g_acc; g_emit, g_last for the stringifier)',
           'paper step: per-position admissibility for the arbitrary ghost position g_i gives whole-output validity by concatenation',
           'Digit::NumberToString writes at least one unit (assumed contract in the stringifier jobs); String::First/Length are opaque there']
ASSUMPTIONS = ['tree-level stringify/parse round trip (Value) is not under contract: the stringifier contracts state the bracket/comma/closer discipline and that no member text is empty, not the full grammar of the output',
               'Value trees are well-formed: Array storage_ holds index_ elements, HashTable is one block of capacity_ bucket heads and capacity_ item slots, a pointer value refers to a live Value',
               'container sizes up to 2^24 elements (arrays) / 2^20 slots (objects)']

GH = [('unsigned int', 'g_next'), ('unsigned int', 'g_len'), ('unsigned int', 'g_i'), ('unsigned int', 'g_pending'),
      ('_Bool', 'g_pend_valid'), ('unsigned int', 'g_state'), ('unsigned int', 'g_acc')]


def verbatim_ok(u):
    return '(%s != 34u && %s != 92u && %s >= 0x20u)' % (u, u, u)


def short_letter(p, ch):
    """ch is the short-escape letter that denotes unit p"""
    return ('((%s == 34u && %s == 34u) || (%s == 92u && %s == 92u) || (%s == 47u && %s == 47u) || (%s == 8u && %s == 98u) || '
            '(%s == 9u && %s == 116u) || (%s == 10u && %s == 110u) || (%s == 12u && %s == 102u) || (%s == 13u && %s == 114u))' %
            (p, ch, p, ch, p, ch, p, ch, p, ch, p, ch, p, ch, p, ch))


HEXD = "(((ch) >= 48u && (ch) <= 57u) ? (ch) - 48u : ((ch) >= 65u && (ch) <= 70u) ? (ch) - 55u : ((ch) >= 97u && (ch) <= 102u) ? (ch) - 87u : 99u)"


def specs(c):
    u = UCHAR[c]
    CH = '((unsigned int)(%s)ch)' % u
    fn, wr, ap = fn_escape(c), fn_write(c), fn_append(c)
    write = dict(
        requires=['g_state == 0', 'str == g_base + g_next && g_next <= g_len && length <= g_len - g_next',
                  'length == 0 || __CPROVER_r_ok(str, ((__CPROVER_size_t)length) * sizeof(*str))',
                  '(g_next <= g_i && g_i - g_next < length) ==> %s' % verbatim_ok('((unsigned int)(%s)str[g_i - g_next])' % u)],
        assigns=['g_next', 'g_pending', 'g_pend_valid'],
        ensures=['g_next == __CPROVER_old(g_next) + length',
                 'g_next < g_len ==> (g_pend_valid && g_pending == (unsigned int)(%s)str[length])' % u,
                 'g_next >= g_len ==> !g_pend_valid'],
        stub_body='''
  __CPROVER_assert(g_state == 0, "slice written in the middle of an escape sequence");
  __CPROVER_assert(str == g_base + g_next && g_next <= g_len && length <= g_len - g_next, "slice is not the next contiguous part of the input");
  if (g_next <= g_i && g_i - g_next < length)
    __CPROVER_assert(%s, "unit passed verbatim must be escaped (quote, backslash or control character)");
  g_next = g_next + length;
  if (g_next < g_len) { g_pend_valid = 1; g_pending = (unsigned int)(%s)str[length]; } else { g_pend_valid = 0; }''' % (verbatim_ok('((unsigned int)(%s)str[g_i - g_next])' % u), u))
    hexd = HEXD.replace('(ch)', CH)
    append = dict(
        requires=['g_pend_valid && g_next < g_len', 'g_state <= 5',
                  'g_state == 0 ==> %s == 92u' % CH,
                  'g_state == 1 ==> (%s || (%s == 117u && g_pending < 0x10000u))' % (short_letter('g_pending', CH), CH),
                  '(g_state >= 2 && g_state <= 5) ==> %s < 16u' % hexd,
                  'g_state == 5 ==> ((g_acc << 4) | %s) == g_pending' % hexd],
        assigns=['g_next', 'g_pend_valid', 'g_state', 'g_acc'],
        ensures=['__CPROVER_old(g_state) == 0 ==> (g_state == 1 && g_next == __CPROVER_old(g_next) && g_pend_valid)',
                 '(__CPROVER_old(g_state) == 1 && %s != 117u) ==> (g_state == 0 && g_next == __CPROVER_old(g_next) + 1 && !g_pend_valid)' % CH,
                 '(__CPROVER_old(g_state) == 1 && %s == 117u) ==> (g_state == 2 && g_acc == 0 && g_next == __CPROVER_old(g_next) && g_pend_valid)' % CH,
                 '(__CPROVER_old(g_state) >= 2 && __CPROVER_old(g_state) <= 4) ==> (g_state == __CPROVER_old(g_state) + 1 && g_acc == ((__CPROVER_old(g_acc) << 4) | %s) && g_next == __CPROVER_old(g_next) && g_pend_valid)' % hexd,
                 '__CPROVER_old(g_state) == 5 ==> (g_state == 0 && g_next == __CPROVER_old(g_next) + 1 && !g_pend_valid)'],
        stub_body='''
  unsigned int u = %s;
  __CPROVER_assert(g_pend_valid && g_next < g_len, "unit appended while no input unit is pending");
  if (g_state == 0) { __CPROVER_assert(u == 92u, "escape sequence must start with a backslash"); g_state = 1; }
  else if (g_state == 1) {
    if (u == 117u) { __CPROVER_assert(g_pending < 0x10000u, "\\\\u escape for a unit above the BMP"); g_state = 2; g_acc = 0; }
    else { __CPROVER_assert(%s, "short escape letter does not denote the pending unit"); g_state = 0; g_next = g_next + 1; g_pend_valid = 0; }
  } else {
    unsigned int d = %s;
    __CPROVER_assert(g_state <= 5 && d < 16u, "\\\\u must be followed by four hex digits");
    g_acc = (g_acc << 4) | d;
    if (g_state == 5) { __CPROVER_assert(g_acc == g_pending, "\\\\uXXXX does not denote the pending unit"); g_state = 0; g_next = g_next + 1; g_pend_valid = 0; }
    else g_state = g_state + 1;
  }''' % (CH, short_letter('g_pending', 'u'), HEXD.replace('(ch)', 'u')))
    main = dict(
        buffers=[('content', 'length')], refs=['stream'], harness_setup=['g_base = content; g_next = 0; g_len = length; g_pend_valid = 0; g_state = 0;'],
        requires=['g_next == 0 && g_len == length && g_base == content && !g_pend_valid && g_state == 0'],
        ensures=['g_next == length', 'g_state == 0'],
        assigns=['g_next', 'g_pending', 'g_pend_valid', 'g_state', 'g_acc'],
        loops={0: dict(invariant=['offset2 <= offset && offset <= length', 'g_next == offset2', 'g_state == 0',
                                  '(offset2 <= g_i && g_i < offset) ==> %s' % verbatim_ok('((unsigned int)(%s)content[g_i])' % u)],
                       decreases='length - offset',
                       assigns='offset, offset2, g_next, g_pending, g_pend_valid, g_state, g_acc')})
    return fn, {fn: main, wr: write, ap: append}


def jobs(tier):
    out = []
    chars = ['char'] if tier == 'quick' else list(CHARS)
    for c in chars:
        fn, sp = specs(c)
        out.append(dict(name='Escape<%s>.transduction' % c, unit=UNIT, fn=fn, roots=['Qentem::JSONUtils::Escape<%s, QV::GStream<%s>>' % (c, c)],
                        specs=sp, replace=[fn_write(c), fn_append(c)], ghosts=GH + [('const %s *' % CHARS[c], 'g_base')],
                        solver='cadical', timeout=900, objbits=10, split=8, cex_K=4,
                        must_have=['postcondition', 'loop_invariant_step', 'loop_decreases', 'precondition'],
                        clause='string escaping emits valid JSON string content that denotes exactly the input, for strings of every length'))
    out += LS.jobs()
    return out
