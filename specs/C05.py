from lib_json import *
import lib_strutils as SU

EXPLANATION = ('Leaf scanners of the JSON parser enforced for buffers of every length with exact-size (is_fresh) buffers: '
               'every read is inside [content, content+length), loops terminate (decreases), cursors never pass the end.')
TRUSTED = ['QV::GStream members (Write requires its range to be readable)']
ASSUMPTIONS = []


def jobs(tier):
    out = []
    chars = ['char'] if tier == 'quick' else list(CHARS)
    for c in chars:
        out.append(dict(name='UnEscape<%s>.memory-safety' % c, unit=UNIT, fn=fn_unescape(c),
                        roots=['Qentem::JSONUtils::UnEscape<%s, QV::GStream<%s>>' % (c, c)],
                        specs=unescape_safety_specs(c), replace=[fn_write(c), fn_append(c), fn_notempty(c), fn_hex2(c), fn_toutf(c)],
                        solver='cadical', timeout=300, must_have=['postcondition', 'loop_invariant_step', 'loop_decreases', 'pointer_dereference'],
                        clause='un-escaping touches only [content, content+length), terminates, returns 0 or a cursor <= length'))
        out.append(dict(name='HexStringToNumber<%s>.memory-safety' % c, unit=UNIT, fn=fn_hex3(c),
                        roots=['Qentem::Digit::HexStringToNumber<unsigned int, %s, unsigned int>' % c],
                        specs=hex_safety_specs(c), solver='cadical', timeout=300,
                        must_have=['postcondition', 'loop_invariant_step', 'loop_decreases', 'pointer_dereference'],
                        clause='hex reader stays inside the buffer and never moves the cursor past end_offset'))
        out.append(dict(name='HexStringToNumber2<%s>.memory-safety' % c, unit=UNIT, fn=fn_hex2(c),
                        roots=['Qentem::Digit::HexStringToNumber<unsigned int, %s>' % c],
                        specs=hex2_safety_specs(c), replace=[fn_hex3(c)], solver='cadical', timeout=300,
                        must_have=['precondition'],
                        clause='two-argument hex reader passes a readable range to the scanning overload'))
    out.append(dict(name='stringToNumber<char>.memory-safety', unit=UNIT, fn=FN_S2N, roots=['Qentem::Digit::stringToNumber<char>'],
                    specs=s2n_specs(), replace=[FN_PEXP, FN_PNEG, FN_PPOS, FN_HEX64], solver='cadical', timeout=900, split=8, objbits=10,
                    must_have=['postcondition', 'loop_invariant_step', 'loop_decreases', 'pointer_dereference'],
                    clause='number scanner reads only [content, content+end_offset), every loop terminates, the cursor never passes end_offset'))
    out.append(dict(name='parseExponent<char>.memory-safety', unit=UNIT, fn=FN_PEXP, roots=['Qentem::Digit::parseExponent<char>'],
                    specs={FN_PEXP: pexp_spec()}, solver='cadical', timeout=300,
                    must_have=['postcondition', 'loop_invariant_step', 'loop_decreases', 'pointer_dereference'],
                    clause='exponent parser reads only inside the buffer, terminates, the cursor never passes end_offset'))
    return out
