from lib_json import *
import lib_strutils as SU
import lib_parser as LP

EXPLANATION = ('Leaf scanners of the JSON parser enforced for buffers of every length with exact-size (is_fresh) buffers: '
               'every read is inside [content, content+length), loops terminate (decreases), cursors never pass the end. '
               'The recursive-descent parser itself (Parse, parseValue, parseArray, parseObject of JSONParser<char, StringStream<char>>) is enforced '
               'function by function with every callee replaced by its contract: each call site hands its callee a readable range inside the '
               'buffer, keyword loops stay inside the keyword literals, every loop terminates.')
TRUSTED = ['QV::GStream members (Write requires its range to be readable)',
           'Array<Value>::operator+=, HArray::Insert, String(const char*, SizeT): assumed contracts (owning containers are object code not under contract); '
           'String(str, len) requires [str, str+len) readable']
ASSUMPTIONS = ['destructor calls of Value/String temporaries and locals are dropped by the extraction (ownership is not decided here)',
               'StringStream<char> satisfies its representation invariant (C14): First() points to Length() readable units',
               'recursion depth (stack use for deeply nested input) is outside what a function contract states; termination of the recursion '
               'follows from the cursor never moving backwards and every recursive call being preceded by ++offset, which is not machine-checked']


def jobs(tier):
    out = []
    chars = ['char'] if tier == 'quick' else list(CHARS)
    for c in chars:
        usp = unescape_safety_specs(c)
        out.append(dict(name='UnEscape<%s>.memory-safety' % c, unit=UNIT, fn=fn_unescape(c), scope_re=unescape_hex_scope(usp[fn_unescape(c)])[1],
                        scope_note='the hex-digit clause of UnEscape is decided under C07',
                        roots=['Qentem::JSONUtils::UnEscape<%s, QV::GStream<%s>>' % (c, c)],
                        specs=unescape_safety_specs(c), replace=[fn_write(c), fn_append(c), fn_notempty(c), fn_hex2(c), fn_hex3(c), fn_toutf(c)], ghosts=GH_HEX, pre=HEX_PRE, prune_specs=True, cex_K=8,
                        solver='cadical', timeout=300, must_have=['postcondition', 'loop_invariant_step', 'loop_decreases', 'pointer_dereference'],
                        clause='un-escaping touches only [content, content+length), terminates, returns 0 or a cursor <= length'))
        nf = unescape_safety_specs(c)
        nf[fn_unescape(c)] = dict(nf[fn_unescape(c)], refs=['stream'], requires=['terminated == 0', '!g_badhex'], assigns=['g_badhex'],
                                  ensures=[e for e in nf[fn_unescape(c)]['ensures'] if 'terminated' not in e])
        out.append(dict(name='UnEscape<%s>.memory-safety.no-flag' % c, unit=UNIT, fn=fn_unescape(c), scope_re=unescape_hex_scope(nf[fn_unescape(c)])[1],
                        scope_note='the hex-digit clause of UnEscape is decided under C07',
                        roots=['Qentem::JSONUtils::UnEscape<%s, QV::GStream<%s>>' % (c, c)], fixed_args={'terminated': '0'},
                        specs=nf, replace=[fn_write(c), fn_append(c), fn_notempty(c), fn_hex2(c), fn_hex3(c), fn_toutf(c)], ghosts=GH_HEX, pre=HEX_PRE, prune_specs=True, cex_K=8,
                        solver='cadical', timeout=300, must_have=['postcondition', 'loop_invariant_step', 'loop_decreases', 'pointer_dereference'],
                        clause='the same with the optional terminated flag omitted (null), as the un-escaping of keys and the tests call it'))
        out.append(dict(name='HexStringToNumber<%s>.memory-safety' % c, unit=UNIT, fn=fn_hex3(c),
                        roots=['Qentem::Digit::HexStringToNumber<unsigned int, %s, unsigned int>' % c],
                        specs=hex_safety_specs(c), ghosts=GH_HEX, pre=HEX_PRE, solver='cadical', timeout=300,
                        must_have=['postcondition', 'loop_invariant_step', 'loop_decreases', 'pointer_dereference'],
                        clause='hex reader stays inside the buffer and never moves the cursor past end_offset'))
        out.append(dict(name='HexStringToNumber2<%s>.memory-safety' % c, unit=UNIT, fn=fn_hex2(c),
                        roots=['Qentem::Digit::HexStringToNumber<unsigned int, %s>' % c],
                        specs=hex2_safety_specs(c), replace=[fn_hex3(c)], ghosts=GH_HEX, pre=HEX_PRE, solver='cadical', timeout=300,
                        must_have=['precondition'],
                        clause='two-argument hex reader passes a readable range to the scanning overload'))
    out.append(dict(name='stringToNumber<char>.memory-safety', unit=UNIT, fn=FN_S2N, roots=['Qentem::Digit::stringToNumber<char>'],
                    specs=s2n_specs(), replace=[FN_PEXP, FN_PNEG, FN_PPOS, FN_HEX64], solver='cadical', timeout=900, split=8, objbits=10,
                    must_have=['postcondition', 'loop_invariant_step', 'loop_decreases', 'pointer_dereference'],
                    clause='number scanner reads only [content, content+end_offset), every loop terminates, the cursor never passes end_offset'))
    out.append(dict(name='parseExponent<char>.memory-safety', unit=UNIT, fn=FN_PEXP, roots=['Qentem::Digit::parseExponent<char>'],
                    specs={FN_PEXP: pexp_spec()}, solver='cadical', timeout=300,
                    must_have=['postcondition', 'loop_invariant_step', 'loop_decreases', 'pointer_dereference'],
                    clause='exponent parser reads only inside the buffer, terminates, the cursor never passes end_offset'))
    out += LP.parser_jobs('C05') + LP.leaf_jobs()[:1]
    return out
