EXPLANATION = ('Byte primitives Memory::Copy / Memory::SetToZero enforced for every size with exact-size non-overlapping buffers: the destination '
               'equals the source (resp. zero) at the arbitrary ghost position, only [to, to+size) is written, only [from, from+size) is read.')
TRUSTED = []
ASSUMPTIONS = ['source and destination do not overlap (is_fresh)']
UNIT = dict(driver='memory.cpp')
UNIT_SSE2 = dict(driver='memory.cpp', defines=['QENTEM_SSE2=1'])
GH = [('unsigned int', 'g_k')]
B = '((unsigned char *)%s)'


def copy_spec(nt):
    return dict(buffers=[('to', 'size', 'unsigned char'), ('from', 'size', 'unsigned char')],
                ensures=['g_k < size ==> ((const unsigned char *)to)[g_k] == ((const unsigned char *)from)[g_k]'],
                assigns=['__CPROVER_object_whole(to)'],
                loops={0: dict(invariant=['1 == 1'], assigns='m_to, m_form, __CPROVER_object_whole(to)'),
                       1: dict(invariant=['offset <= size', 'g_k < offset ==> ((const unsigned char *)to)[g_k] == ((const unsigned char *)from)[g_k]'],
                               decreases='size - offset', assigns='offset, __CPROVER_object_whole(to)')})


def zero_spec(nt):
    return dict(buffers=[('pointer', 'size', 'unsigned char')],
                ensures=['g_k < size ==> ((const unsigned char *)pointer)[g_k] == 0'],
                assigns=['__CPROVER_object_whole(pointer)'],
                loops={0: dict(invariant=['1 == 1'], assigns='m_pointer, __CPROVER_object_whole(pointer)'),
                       1: dict(invariant=['offset <= size', 'g_k < offset ==> ((const unsigned char *)pointer)[g_k] == 0'],
                               decreases='size - offset', assigns='offset, __CPROVER_object_whole(pointer)')})


def simd_copy_spec(vb):
    PO = '__CPROVER_POINTER_OFFSET'
    sp = copy_spec('')
    sp['loops'] = {
        0: dict(invariant=['__CPROVER_same_object(m_form, from) && __CPROVER_same_object(m_to, to)',
                           '%s(m_form) == %s(m_to) && %s(m_form) %% %d == 0' % (PO, PO, PO, vb),
                           '0 <= %s(m_form) && (unsigned long long)%s(m_form) < (unsigned long long)m_size * %d' % (PO, PO, vb),
                           '%s(end) == (long long)m_size * %d && __CPROVER_same_object(end, from)' % (PO, vb),
                           '(long long)g_k < %s(m_form) ==> ((const unsigned char *)to)[g_k] == ((const unsigned char *)from)[g_k]' % PO],
                decreases='(long long)m_size * %d - %s(m_form)' % (vb, PO),
                assigns='m_to, m_form, __CPROVER_object_whole(to)'),
        1: sp['loops'][1]}
    return sp


def simd_zero_spec(vb):
    PO = '__CPROVER_POINTER_OFFSET'
    sp = zero_spec('')
    sp['loops'] = {
        0: dict(invariant=['__CPROVER_same_object(m_pointer, pointer)', '%s(m_pointer) %% %d == 0' % (PO, vb),
                           '0 <= %s(m_pointer) && (unsigned long long)%s(m_pointer) < (unsigned long long)m_size * %d' % (PO, PO, vb),
                           '%s(end) == (long long)m_size * %d && __CPROVER_same_object(end, pointer)' % (PO, vb),
                           '(long long)g_k < %s(m_pointer) ==> ((const unsigned char *)pointer)[g_k] == 0' % PO],
                decreases='(long long)m_size * %d - %s(m_pointer)' % (vb, PO),
                assigns='m_pointer, __CPROVER_object_whole(pointer)'),
        1: sp['loops'][1]}
    return sp


UNIT_AVX2 = dict(driver='memory.cpp', defines=['QENTEM_AVX2=1', '__AVX2__=1'], cflags=['-mavx2'])


def jobs(tier):
    out = []
    for cfg, unit, vb in ((('sse2', UNIT_SSE2, 16), ('avx2', UNIT_AVX2, 32)) if tier == 'thorough' else ()):
        out.append(dict(name='Memory::Copy<unsigned int>.%s' % cfg, unit=unit, fn='Memory_Copy__unsigned_int', roots=['Qentem::Memory::Copy<unsigned int>'],
                        specs={'Memory_Copy__unsigned_int': simd_copy_spec(vb)}, ghosts=GH, solver='cadical', timeout=600, split=40, cbmc_flags=['--slice-formula'], weight=8,
                        must_have=['postcondition', 'loop_invariant_step', 'loop_decreases'],
                        clause='byte copy (%s block loop + scalar tail): same contract as the scalar build, for every size' % cfg))
        out.append(dict(name='Memory::SetToZero<unsigned int>.%s' % cfg, unit=unit, fn='Memory_SetToZero__unsigned_int', roots=['Qentem::Memory::SetToZero<unsigned int>'],
                        specs={'Memory_SetToZero__unsigned_int': simd_zero_spec(vb)}, ghosts=GH, solver='cadical', timeout=600, split=40, cbmc_flags=['--slice-formula'], weight=8,
                        must_have=['postcondition', 'loop_invariant_step', 'loop_decreases'],
                        clause='zero fill (%s block loop + scalar tail): same contract as the scalar build, for every size' % cfg))
    for nt, nts in (('unsigned int', 'unsigned_int'),):
        out.append(dict(name='Memory::Copy<%s>.scalar' % nt, unit=UNIT, fn='Memory_Copy__%s' % nts, roots=['Qentem::Memory::Copy<%s>' % nt],
                        specs={'Memory_Copy__%s' % nts: copy_spec(nt)}, ghosts=GH, solver='cadical', timeout=300,
                        must_have=['postcondition', 'loop_invariant_step', 'loop_decreases'],
                        clause='byte copy: destination equals source for every size; writes only the destination range'))
        out.append(dict(name='Memory::SetToZero<%s>.scalar' % nt, unit=UNIT, fn='Memory_SetToZero__%s' % nts, roots=['Qentem::Memory::SetToZero<%s>' % nt],
                        specs={'Memory_SetToZero__%s' % nts: zero_spec(nt)}, ghosts=GH, solver='cadical', timeout=300,
                        must_have=['postcondition', 'loop_invariant_step', 'loop_decreases'],
                        clause='zero fill: every byte of the range is zero for every size; writes only that range'))
    return out
