EXPLANATION = ('Byte primitives Memory::Copy / Memory::SetToZero enforced for every size with exact-size non-overlapping buffers: the destination '
               'equals the source (resp. zero) at the arbitrary ghost position, only [to, to+size) is written, only [from, from+size) is read.')
TRUSTED = []
ASSUMPTIONS = ['source and destination of Memory::Copy do not overlap; the contract is enforced for separate objects and is ASSUMED (not enforced) for disjoint ranges of one object, which only the non-growing self-append uses']
UNIT = dict(driver='memory.cpp')
UNIT_SSE2 = dict(driver='memory.cpp', defines=['QENTEM_SSE2=1'])
GH = [('unsigned int', 'g_k')]
B = '((unsigned char *)%s)'


def copy_spec(nt):
    return dict(buffers=[('to', 'size', 'unsigned char'), ('from', 'size', 'unsigned char')],
                ensures=['g_k < size ==> ((const unsigned char *)to)[g_k] == ((const unsigned char *)from)[g_k]'],
                assigns=['__CPROVER_object_whole(to)'],
                loops={0: dict(invariant=['1 == 1'], assigns='m_to, m_form, __CPROVER_object_whole(to)'),
                       1: dict(invariant=['offset <= size', 'g_k < offset ==> ((const unsigned char *)to)[g_k] == ((const unsigned char *)from)[g_k]'],
                               decreases='size - offset', assigns='offset, __CPROVER_object_whole(to)')})


def zero_spec(nt):
    return dict(buffers=[('pointer', 'size', 'unsigned char')],
                ensures=['g_k < size ==> ((const unsigned char *)pointer)[g_k] == 0'],
                assigns=['__CPROVER_object_whole(pointer)'],
                loops={0: dict(invariant=['1 == 1'], assigns='m_pointer, __CPROVER_object_whole(pointer)'),
                       1: dict(invariant=['offset <= size', 'g_k < offset ==> ((const unsigned char *)pointer)[g_k] == 0'],
                               decreases='size - offset', assigns='offset, __CPROVER_object_whole(pointer)')})


def simd_copy_spec(vb):
    PO = '__CPROVER_POINTER_OFFSET'
    sp = copy_spec('')
    sp['loops'] = {
        0: dict(invariant=['__CPROVER_same_object(m_form, from) && __CPROVER_same_object(m_to, to)',
                           '%s(m_form) == %s(m_to) && %s(m_form) %% %d == 0' % (PO, PO, PO, vb),
                           '0 <= %s(m_form) && (unsigned long long)%s(m_form) < (unsigned long long)m_size * %d' % (PO, PO, vb),
                           '%s(end) == (long long)m_size * %d && __CPROVER_same_object(end, from)' % (PO, vb),
                           '(long long)g_k < %s(m_form) ==> ((const unsigned char *)to)[g_k] == ((const unsigned char *)from)[g_k]' % PO],
                decreases='(long long)m_size * %d - %s(m_form)' % (vb, PO),
                assigns='m_to, m_form, __CPROVER_object_whole(to)'),
        1: sp['loops'][1]}
    return sp


def simd_zero_spec(vb):
    PO = '__CPROVER_POINTER_OFFSET'
    sp = zero_spec('')
    sp['loops'] = {
        0: dict(invariant=['__CPROVER_same_object(m_pointer, pointer)', '%s(m_pointer) %% %d == 0' % (PO, vb),
                           '0 <= %s(m_pointer) && (unsigned long long)%s(m_pointer) < (unsigned long long)m_size * %d' % (PO, PO, vb),
                           '%s(end) == (long long)m_size * %d && __CPROVER_same_object(end, pointer)' % (PO, vb),
                           '(long long)g_k < %s(m_pointer) ==> ((const unsigned char *)pointer)[g_k] == 0' % PO],
                decreases='(long long)m_size * %d - %s(m_pointer)' % (vb, PO),
                assigns='m_pointer, __CPROVER_object_whole(pointer)'),
        1: sp['loops'][1]}
    return sp


UNIT_AVX2 = dict(driver='memory.cpp', defines=['QENTEM_AVX2=1', '__AVX2__=1'], cflags=['-mavx2'])


def jobs(tier):
    out = []
    # SIMD builds.  The modular (all sizes) proof of the block loops does not fit in memory with the installed back ends
    # (5 GB per obligation group); the stand-in is BOUNDED: every size 0..N bytes separately, contents symbolic.
    N = 96 if tier == 'quick' else 320
    for cfg, unit, vb in (('sse2', UNIT_SSE2, 16), ('avx2', UNIT_AVX2, 32)):
        base = dict(unit=unit, mode='harness', ghosts=GH, solver='cadical', timeout=120, sweep=('size', list(range(0, N + 1))), sweep_par=8, weight=8,
                    harness_K=N, harness_unwind=N + 2, bounded='every size 0..%d bytes (one CBMC run per size, symbolic contents, %s block loop + scalar tail)' % (N, cfg),
                    must_have=['assertion'], cex_K=40, cex_unwind=44)
        sp = copy_spec('')
        sp.pop('loops')

        out.append(dict(base, name='Memory::Copy<unsigned int>.%s.bounded' % cfg, fn='Memory_Copy__unsigned_int', roots=['Qentem::Memory::Copy<unsigned int>'],
                        specs={'Memory_Copy__unsigned_int': sp},
                        clause='byte copy in the %s build gives the same result as the scalar build (bounded: sizes 0..%d)' % (cfg, N)))
        if tier == 'quick':
            # a few large sizes as well (the thorough tier covers every size up to 320): block counts around the 16-register mark, where an unrolled
            # block loop would start to matter
            L = [256, 272, 288, 304, 320]
            out.append(dict(base, name='Memory::Copy<unsigned int>.%s.bounded.large' % cfg, fn='Memory_Copy__unsigned_int', roots=['Qentem::Memory::Copy<unsigned int>'],
                            specs={'Memory_Copy__unsigned_int': sp}, sweep=('size', L), harness_K=320, harness_unwind=322, sweep_par=5, weight=6,
                            bounded='sizes %s bytes (one CBMC run per size, symbolic contents, %s block loop + scalar tail)' % (', '.join(map(str, L)), cfg),
                            clause='byte copy in the %s build gives the same result as the scalar build (bounded: sizes %s)' % (cfg, ', '.join(map(str, L)))))
        sz = zero_spec('')
        sz.pop('loops')

        out.append(dict(base, name='Memory::SetToZero<unsigned int>.%s.bounded' % cfg, fn='Memory_SetToZero__unsigned_int', roots=['Qentem::Memory::SetToZero<unsigned int>'],
                        specs={'Memory_SetToZero__unsigned_int': sz},
                        clause='zero fill in the %s build gives the same result as the scalar build (bounded: sizes 0..%d)' % (cfg, N)))
    for nt, nts in (('unsigned int', 'unsigned_int'),):
        out.append(dict(name='Memory::Copy<%s>.scalar' % nt, unit=UNIT, fn='Memory_Copy__%s' % nts, roots=['Qentem::Memory::Copy<%s>' % nt],
                        specs={'Memory_Copy__%s' % nts: copy_spec(nt)}, ghosts=GH, solver='cadical', timeout=300,
                        must_have=['postcondition', 'loop_invariant_step', 'loop_decreases'],
                        clause='byte copy: destination equals source for every size; writes only the destination range'))
        out.append(dict(name='Memory::SetToZero<%s>.scalar' % nt, unit=UNIT, fn='Memory_SetToZero__%s' % nts, roots=['Qentem::Memory::SetToZero<%s>' % nt],
                        specs={'Memory_SetToZero__%s' % nts: zero_spec(nt)}, ghosts=GH, solver='cadical', timeout=300,
                        must_have=['postcondition', 'loop_invariant_step', 'loop_decreases'],
                        clause='zero fill: every byte of the range is zero for every size; writes only that range'))
    return out


from lib_containers import SS, QSS, COPY, wf_req, wf_ens, copy_callee, KEEP, OLDREQ
import lib_containers as LC


def ss_job(name, qfn, fn, spec, clause, **kw):
    if any('__CPROVER_is_fresh(self->storage_' in r for r in spec.get('requires', [])) and 'obj_buffers' not in spec:
        # Buffer / SetLength extend the length over fresh (indeterminate) storage: contents are not comparable between two runs
        keep = '0' if name.startswith(('Buffer', 'SetLength')) else 'o_self.length_'
        spec = dict(spec, obj_buffers=[('o_self.storage_', 'o_self.capacity_', 'char', keep)])
    j = dict(name='StringStream<char>.%s' % name, unit=LC.UNIT, fn=fn, roots=[QSS + '::' + qfn], specs={fn: spec, COPY: copy_callee()}, replace=[COPY],
             ghosts=LC.GH, solver='cadical', timeout=600, objbits=10, must_have=['postcondition'], clause=clause, cex_K=4)
    if kw.pop('nocopy', False):
        j['specs'] = {fn: spec}
        j['replace'] = []
    j.update(kw)
    return j


NOPO = ['--bounds-check', '--pointer-check', '--div-by-zero-check']   # nullptr + 0 is well defined in C++ (CBMC flags it as C pointer overflow)


def ss_jobs():
    out = []
    O_LEN = '__CPROVER_old(self->length_)'
    for alloc, tag in ((True, 'allocated'), (False, 'empty')):
        FR = ['__CPROVER_object_whole(self)'] + (['__CPROVER_object_whole(self->storage_)'] if alloc else [])
        FREES = ['self->storage_'] if alloc else []
        W = wf_req(allocated=alloc)
        keep = [KEEP] if alloc else []
        oldreq = [OLDREQ] if alloc else []
        kw = {} if alloc else dict(checks=NOPO)
        out.append(ss_job('write.' + tag, 'write', SS + '_write',
                          dict(buffers=[('str', 'len')], requires=W + ['len <= 0x1000000u'] + oldreq + ['g_c == (g_k < self->length_ ? g_k : g_k - self->length_)'],
                               ensures=wf_ens() + ['self->length_ == %s + len' % O_LEN] + keep +
                               ['(g_k >= %s && g_k < self->length_) ==> self->storage_[g_k] == str[g_k - %s]' % (O_LEN, O_LEN)],
                               assigns=FR, frees=FREES),
                          'append of a range: new length, earlier elements undisturbed, appended elements equal the source (source outside the stream)', **kw))
        out.append(ss_job('append-char.' + tag, 'operator+=(const char)', SS + '_op_add_assign__const_char',
                          dict(requires=W + oldreq + ['g_c == g_k'],
                               ensures=wf_ens() + ['self->length_ == %s + 1' % O_LEN, 'self->storage_[%s] == one_char' % O_LEN] + keep,
                               assigns=FR, frees=FREES),
                          'append of one unit: length grows by one, the unit is last, earlier elements undisturbed', **kw))
        out.append(ss_job('Buffer.' + tag, 'Buffer', SS + '_Buffer',
                          dict(requires=W + ['len <= 0x1000000u'] + oldreq + ['g_c == g_k'],
                               ensures=wf_ens() + ['self->length_ == %s + len' % O_LEN, 'len != 0 ==> __CPROVER_return_value == self->storage_ + %s' % O_LEN,
                                                   'len != 0 ==> __CPROVER_w_ok(__CPROVER_return_value, len)'] + keep,
                               assigns=FR, frees=FREES),
                          'buffer hand-out: the returned range is the new tail of the (possibly re-allocated) storage and is writable', **kw))
        out.append(ss_job('SetLength.' + tag, 'SetLength', SS + '_SetLength',
                          dict(requires=W + ['len <= 0x1000000u'] + oldreq + ['g_c == g_k'],
                               ensures=wf_ens() + ['self->length_ == len', '(g_k < %s && g_k < len) ==> self->storage_[g_k] == g_old' % O_LEN] if alloc else wf_ens() + ['self->length_ == len'],
                               assigns=FR, frees=FREES),
                          'set-length grows capacity as needed and keeps the retained elements', **kw))
        out.append(ss_job('InsertNull.' + tag, 'InsertNull', SS + '_InsertNull',
                          dict(requires=W + oldreq + ['g_c == g_k'],
                               ensures=wf_ens() + ['self->length_ == %s' % O_LEN, 'self->length_ < self->capacity_', 'self->storage_[self->length_] == 0'] + keep,
                               assigns=FR, frees=FREES),
                          'terminator insertion does not change length or content', **kw))
    W = wf_req(allocated=True)
    FR = ['__CPROVER_object_whole(self)', '__CPROVER_object_whole(self->storage_)']
    SELF = SS + '_op_add_assign__const_StringStream__char_r'
    out.append(ss_job('self-append', 'operator+=(const Qentem::StringStream<char> &)', SELF,
                      dict(harness_alias={'stream': 'self'}, obj_buffers=[('o_self.storage_', 'o_self.capacity_', 'char', 'o_self.length_')], requires=W + ['stream == self', OLDREQ, 'self->length_ <= 0x1000000u', 'g_c == (g_k < self->length_ ? g_k : g_k - self->length_)'],
                           ensures=wf_ens() + ['self->length_ == 2 * %s' % O_LEN, KEEP,
                                               '(g_k >= %s && g_k < self->length_) ==> self->storage_[g_k] == self->storage_[g_k - %s]' % (O_LEN, O_LEN)],
                           assigns=FR, frees=['self->storage_']),
                      'appending a stream to itself doubles it and never reads released storage', cex_K=4, fixed_args={'stream': 'a_self'}, timeout=900))
    out.append(ss_job('StepBack', 'StepBack', SS + '_StepBack',
                      dict(requires=W + [OLDREQ], ensures=wf_ens() + ['self->length_ == (len <= %s ? %s - len : %s)' % (O_LEN, O_LEN, O_LEN), 'g_k < self->length_ ==> self->storage_[g_k] == g_old'],
                           assigns=['self->length_']),
                      'step-back drops exactly len trailing elements (or nothing when len exceeds the length)', nocopy=True))
    out.append(ss_job('Reverse', 'Reverse', SS + '_Reverse',
                      dict(requires=W + ['index <= self->length_', 'g_k < self->length_', 'g_old == self->storage_[g_k]'],
                           ghost_returns=[],
                           ensures=wf_ens() + ['self->length_ == %s' % O_LEN,
                                               'g_k < index ==> self->storage_[g_k] == g_old',
                                               'g_k >= index ==> self->storage_[index + (self->length_ - 1 - g_k)] == g_old'],
                           assigns=['__CPROVER_object_whole(self->storage_)'],
                           loops={0: dict(invariant=['index <= end + 1 && end <= self->length_', 'index - __CPROVER_loop_entry(index) == self->length_ - end',
                                                     'index >= __CPROVER_loop_entry(index)',
                                                     '(g_k < __CPROVER_loop_entry(index)) ==> self->storage_[g_k] == g_old',
                                                     '(g_k >= index && g_k < end) ==> self->storage_[g_k] == g_old',
                                                     '(g_k >= __CPROVER_loop_entry(index) && g_k < index) ==> self->storage_[__CPROVER_loop_entry(index) + (self->length_ - 1 - g_k)] == g_old',
                                                     '(g_k >= end && g_k < self->length_) ==> self->storage_[__CPROVER_loop_entry(index) + (self->length_ - 1 - g_k)] == g_old'],
                                        decreases='(end + 1) - index', assigns='index, end, __CPROVER_object_whole(self->storage_)')}),
                      'reverse from an index: the tail is mirrored, the head is untouched', nocopy=True))
    out.append(ss_job('Reset', 'Reset', SS + '_Reset',
                      dict(requires=W, ensures=['self->storage_ == 0 && self->length_ == 0 && self->capacity_ == 0', '__CPROVER_was_freed(__CPROVER_old(self->storage_))'],
                           assigns=['__CPROVER_object_whole(self)'], frees=['self->storage_']),
                      'reset releases the storage exactly once and leaves an empty stream', nocopy=True))
    out.append(ss_job('Detach', 'Detach', SS + '_Detach',
                      dict(requires=W, ensures=['self->storage_ == 0 && self->length_ == 0 && self->capacity_ == 0', '__CPROVER_return_value == __CPROVER_old(self->storage_)',
                                                '!__CPROVER_was_freed(__CPROVER_old(self->storage_))'],
                           assigns=['__CPROVER_object_whole(self)'], frees=['self->storage_']),
                      'detach hands the storage to the caller without releasing it', nocopy=True))
    return out


_jobs_c14 = jobs


def jobs(tier):
    return _jobs_c14(tier) + ss_jobs()


ST = 'String__char'
QST = 'Qentem::String<char>'


def st_job(name, qfn, fn, spec, clause, **kw):
    if any('__CPROVER_is_fresh(self->storage_' in r for r in spec.get('requires', [])) and 'obj_buffers' not in spec:
        spec = dict(spec, obj_buffers=[('o_self.storage_', 'o_self.length_ + 1', 'char', 'o_self.length_ + 1')])
    j = dict(name='String<char>.%s' % name, unit=LC.UNIT, fn=fn, roots=[QST + '::' + qfn], specs={fn: spec, COPY: copy_callee()}, replace=[COPY],
             ghosts=LC.GH, solver='cadical', timeout=600, objbits=10, must_have=['postcondition'], clause=clause, cex_K=4)
    if kw.pop('nocopy', False):
        j['specs'] = {fn: spec}
        j['replace'] = []
    j.update(kw)
    return j


def st_wf(alloc=True, s='self'):
    if alloc:
        return ['__CPROVER_is_fresh(%s, sizeof(*%s))' % (s, s), '%s->length_ <= 0x1000000u' % s,
                '__CPROVER_is_fresh(%s->storage_, (__CPROVER_size_t)%s->length_ + 1)' % (s, s), '%s->storage_[%s->length_] == 0' % (s, s)]
    return ['__CPROVER_is_fresh(%s, sizeof(*%s))' % (s, s), '%s->storage_ == 0 && %s->length_ == 0' % (s, s)]


def st_ens(s='self'):
    return ['%s->storage_ != 0 ==> (__CPROVER_w_ok(%s->storage_, (__CPROVER_size_t)%s->length_ + 1) && %s->storage_[%s->length_] == 0)' % (s, s, s, s, s),
            '%s->storage_ == 0 ==> %s->length_ == 0' % (s, s)]


def string_jobs():
    out = []
    O_LEN = '__CPROVER_old(self->length_)'
    for alloc, tag in ((True, 'allocated'), (False, 'empty')):
        FR = ['__CPROVER_object_whole(self)'] + (['__CPROVER_object_whole(self->storage_)'] if alloc else [])
        FREES = ['self->storage_'] if alloc else []
        keep = [KEEP] if alloc else []
        oldreq = [OLDREQ] if alloc else []
        out.append(st_job('Write.' + tag, 'Write', ST + '_Write',
                          dict(buffers=[('str', 'len')], requires=st_wf(alloc) + ['len <= 0x1000000u', 'len != 0'] + oldreq + ['g_c == (g_k < self->length_ ? g_k : g_k - self->length_)'],
                               ensures=st_ens() + ['self->length_ == %s + len' % O_LEN] + keep +
                               ['(g_k >= %s && g_k < self->length_) ==> self->storage_[g_k] == str[g_k - %s]' % (O_LEN, O_LEN)],
                               assigns=FR, frees=FREES),
                          'String append of a range: new length, NUL terminated, earlier characters undisturbed, appended characters equal the source'))
    W = st_wf(True)
    FRa = ['__CPROVER_object_whole(self)', '__CPROVER_object_whole(self->storage_)']
    out.append(st_job('Write.self', 'Write', ST + '_Write',
                      dict(harness_alias={'str': 'o_self.storage_'}, obj_buffers=[('o_self.storage_', 'o_self.length_ + 1', 'char')],
                           requires=W + ['str == self->storage_', 'len == self->length_', 'len != 0', OLDREQ, 'g_c == (g_k < self->length_ ? g_k : g_k - self->length_)'],
                           ensures=st_ens() + ['self->length_ == 2 * %s' % O_LEN, KEEP,
                                               '(g_k >= %s && g_k < self->length_) ==> self->storage_[g_k] == self->storage_[g_k - %s]' % (O_LEN, O_LEN)],
                           assigns=FRa, frees=['self->storage_']),
                      'appending a String to itself doubles it and never reads released storage', cex_K=4))
    EQL = ST + '_op_eq__const_char_p_c'
    PO = '__CPROVER_POINTER_OFFSET(str)'
    for alloc, tag in ((True, 'allocated'), (False, 'empty')):
        out.append(st_job('equals-literal.' + tag, 'operator==(const char *)', EQL,
                          dict(buffers=[('str', 'g_n + 1')], requires=st_wf(alloc) + ['g_n <= 0x1000000u', 'str[g_n] == 0'],
                               ghost_returns=['g_k = offset'],
                               ensures=['__CPROVER_return_value == 0 || __CPROVER_return_value == 1', 'g_k <= g_n && g_k <= self->length_',
                                        'g_j < g_k ==> self->storage_[g_j] == __CPROVER_old(str)[g_j]',
                                        '__CPROVER_return_value == (__CPROVER_old(str)[g_k] == 0 && self->length_ == g_k)'],
                               assigns=['g_k'],
                               loops={0: dict(invariant=['__CPROVER_same_object(str, __CPROVER_loop_entry(str))', '%s == (long long)offset' % PO, 'offset <= g_n', 'offset <= self->length_',
                                                         'g_j < offset ==> self->storage_[g_j] == __CPROVER_loop_entry(str)[g_j]'],
                                              decreases='g_n - offset', assigns='str, offset')}),
                          'comparison with a NUL-terminated literal reads only the literal and the String, also for an empty String', nocopy=True,
                          ghosts=LC.GH + [('unsigned int', 'g_n'), ('unsigned int', 'g_j')], cex_K=4))
    out.append(st_job('StepBack', 'StepBack', ST + '_StepBack',
                      dict(requires=W + [OLDREQ], ensures=st_ens() + ['self->length_ == (len <= %s ? %s - len : %s)' % (O_LEN, O_LEN, O_LEN), 'g_k < self->length_ ==> self->storage_[g_k] == g_old'],
                           assigns=['self->length_', '__CPROVER_object_whole(self->storage_)']),
                      'String step-back drops exactly len trailing characters and re-terminates', nocopy=True))
    return out


_jobs_c14b = jobs


def jobs(tier):
    return _jobs_c14b(tier) + string_jobs()


AR = 'Array__unsigned_int'
QAR = 'Qentem::Array<unsigned int>'
AGH = [('unsigned int', 'g_k'), ('unsigned int', 'g_old'), ('unsigned int', 'g_c')]


def ar_wf(s='self', alloc=True):
    if alloc:
        return ['__CPROVER_is_fresh(%s, sizeof(*%s))' % (s, s), '%s->capacity_ != 0 && %s->capacity_ <= 0x100000u' % (s, s),
                '__CPROVER_is_fresh(%s->storage_, (__CPROVER_size_t)%s->capacity_ * sizeof(unsigned int))' % (s, s), '%s->index_ <= %s->capacity_' % (s, s)]
    return ['__CPROVER_is_fresh(%s, sizeof(*%s))' % (s, s), '%s->capacity_ == 0 && %s->storage_ == 0 && %s->index_ == 0' % (s, s, s)]


def ar_ens(s='self'):
    return ['%s->index_ <= %s->capacity_' % (s, s),
            '%s->capacity_ != 0 ==> __CPROVER_w_ok(%s->storage_, (__CPROVER_size_t)%s->capacity_ * sizeof(unsigned int))' % (s, s, s)]


def array_copy_callee():
    """Memory::Copy as used by Array<unsigned int>: byte granularity; the observed element g_k maps to four byte indices, so the callee is
    given the element-wise meaning directly (sound consequence of the byte contract enforced in the Memory::Copy jobs)"""
    return dict(requires=['size == 0 || (__CPROVER_w_ok(to, size) && __CPROVER_r_ok(from, size))', 'size == 0 || !__CPROVER_same_object(to, from)', 'size % 4 == 0'],
                ensures=['g_c < size / 4 ==> ((const unsigned int *)to)[g_c] == ((const unsigned int *)from)[g_c]'],
                assigns=['size != 0: __CPROVER_object_upto(to, size)'])


def array_jobs():
    out = []
    O_IX = '__CPROVER_old(self->index_)'
    FR = ['__CPROVER_object_whole(self)', '__CPROVER_object_whole(self->storage_)']
    mk = lambda name, qfn, fn, spec, clause, **kw: dict(dict(name='Array<unsigned int>.%s' % name, unit=LC.UNIT, fn=fn, roots=[QAR + '::' + qfn],
                                                             specs={fn: dict(spec, obj_buffers=[('o_self.storage_', 'o_self.capacity_', 'unsigned int', 'o_self.index_')]), COPY: array_copy_callee()},
                                                             replace=[COPY], ghosts=AGH, solver='cadical', timeout=600, objbits=10, must_have=['postcondition'], clause=clause, cex_K=3), **kw)
    keep = 'g_k < %s ==> self->storage_[g_k] == g_old' % O_IX
    oldreq = 'g_k < self->index_ ==> g_old == self->storage_[g_k]'
    out.append(mk('append-item', 'operator+=(unsigned int &&)', AR + '_op_add_assign__unsigned_int_rr',
                  dict(requires=ar_wf() + ['__CPROVER_is_fresh(item, sizeof(*item))', oldreq, 'g_c == g_k'],
                       ensures=ar_ens() + ['self->index_ == %s + 1' % O_IX, 'self->storage_[%s] == __CPROVER_old(*item)' % O_IX, keep],
                       assigns=FR + ['*item'], frees=['self->storage_']),
                  'append of one item: size grows by one, the item is last, earlier items undisturbed'))
    src_wf = ['__CPROVER_is_fresh(src, sizeof(*src))', 'src->capacity_ != 0 && src->capacity_ <= 0x100000u',
              '__CPROVER_is_fresh(src->storage_, (__CPROVER_size_t)src->capacity_ * sizeof(unsigned int))', 'src->index_ <= src->capacity_']
    # append of an array: the modular proof (pointer loop variables over two symbolic-size objects) runs out of memory at 14 GB, so this is a
    # BOUNDED stand-in: harness mode, capacities <= 4, one run per source size 0..3, all contents symbolic
    sp = dict(requires=ar_wf() + src_wf + [oldreq],
              ensures=ar_ens() + ['self->index_ == %s + src->index_' % O_IX, keep,
                                  '(g_k >= %s && g_k < self->index_) ==> self->storage_[g_k] == src->storage_[g_k - %s]' % (O_IX, O_IX)],
              obj_buffers=[('o_self.storage_', 'o_self.capacity_', 'unsigned int', 'o_self.index_'), ('o_src.storage_', 'o_src.capacity_', 'unsigned int', 'o_src.index_')])
    fn = AR + '_op_add_assign__const_Array__unsigned_int_r'
    out.append(dict(name='Array<unsigned int>.append-array.bounded', unit=LC.UNIT, fn=fn, roots=[QAR + '::operator+=(const Qentem::Array<unsigned int> &)'], mode='harness',
                    specs={fn: sp}, ghosts=AGH, solver='cadical', timeout=300, objbits=9, sweep=('o_src.index_', [0, 1, 2, 3]), sweep_par=4, weight=4,
                    harness_K=4, harness_unwind=20, must_have=['assertion'], cex_K=4, cex_unwind=20,
                    bounded='capacities <= 4, source sizes 0..3 (one run each), contents symbolic',
                    clause='append of an array: size is the sum, earlier items undisturbed, appended items equal the source in order'))
    return out


_jobs_c14c = jobs


def jobs(tier):
    return _jobs_c14c(tier) + array_jobs()
