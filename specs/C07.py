from lib_parser import *

EXPLANATION = ('The recursive-descent parser JSON::JSONParser<char, StringStream<char>> (Parse, parseValue, parseArray, parseObject) enforced function by function, '
               'each against a contract that carries the all-or-nothing argument through the mutual recursion without a depth bound.')
TRUSTED = ['Array<Value>::operator+=, HArray::Insert, String(const char*, SizeT): assumed contracts (owning containers are object code not under contract)',
           'JSONUtils::UnEscape and Digit::StringToNumber: callee contracts enforced under C05 on the same template text']
ASSUMPTIONS = ['destructor calls of Value/String temporaries and locals are dropped by the extraction (ownership is not decided here)',
               'StringStream<char> satisfies its representation invariant (C14)']


def jobs(tier):
    return parser_jobs('C07') + leaf_jobs()
