from lib_parser import *
import lib_json as LJ

EXPLANATION = ('The recursive-descent parser JSON::JSONParser<char, StringStream<char>> (Parse, parseValue, parseArray, parseObject) enforced function by function, '
               'each against a contract that carries the all-or-nothing argument through the mutual recursion without a depth bound.')
TRUSTED = ['Array<Value>::operator+=, HArray::Insert, String(const char*, SizeT): assumed contracts (owning containers are object code not under contract)',
           'JSONUtils::UnEscape and Digit::StringToNumber: callee contracts enforced under C05 on the same template text']
ASSUMPTIONS = ['destructor calls of Value/String temporaries and locals are dropped by the extraction (ownership is not decided here)',
               'StringStream<char> satisfies its representation invariant (C14)']


def unescape_hex_job():
    c = 'char'
    sp = LJ.unescape_safety_specs(c)
    return dict(name='UnEscape<char>.hex-digits', unit=LJ.UNIT, fn=LJ.fn_unescape(c), roots=['Qentem::JSONUtils::UnEscape<%s, QV::GStream<%s>>' % (c, c)],
                specs=sp, replace=[LJ.fn_write(c), LJ.fn_append(c), LJ.fn_notempty(c), LJ.fn_hex2(c), LJ.fn_hex3(c), LJ.fn_toutf(c)], ghosts=LJ.GH_HEX, pre=LJ.HEX_PRE,
                prune_specs=True, cex_K=8, solver='cadical', timeout=300, must_have=['postcondition', 'loop_invariant_step'],
                scope_re=LJ.unescape_hex_scope(sp[LJ.fn_unescape(c)])[0], scope_note='memory safety of UnEscape is decided under C05',
                clause='a string is accepted only if every \\\\u escape in it is followed by four hex digits (no hex reader stopped early)')


def jobs(tier):
    return parser_jobs('C07') + leaf_jobs() + [unescape_hex_job()]
