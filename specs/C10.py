EXPLANATION = ('Digit::IntToString: exact decimal text for every 8- and 16-bit value in both directions (loops unwound to their constant bound, the value read back from the '
               'emitted digits in wider arithmetic); the 32/64-bit instances of the same template text are not decided.')
TRUSTED = []
ASSUMPTIONS = ['digit correctness for 32/64-bit integers is NOT decided (chained division by 100 does not finish on the installed back ends); finite-real formatting is not under contract']
UNIT = dict(driver='digit.cpp')


def exact_job(rev, wt, wts, maxd, bits):
    fn = 'Digit_IntToString__%s_char_%s' % ('m1' if rev else '0', wts)
    q = 'Qentem::Digit::IntToString<%s, char, %s>' % ('-1' if rev else '0', wt)
    if not rev:
        body = '''
  char buf[%(m)d];
  %(wt)s n;
  unsigned int len = %(fn)s(buf + %(m)d, n);
  __CPROVER_assert(len >= 1 && len <= %(m)d, "between one and %(m)d digits");
  unsigned long long v = 0;
  for (unsigned int i = 0; i < len; i++) {
    char c = buf[%(m)d - len + i];
    __CPROVER_assert(c >= '0' && c <= '9', "every emitted unit is a decimal digit");
    v = v * 10 + (unsigned long long)(c - '0');
  }
  __CPROVER_assert(v == (unsigned long long)n, "the digits denote exactly the number");
  __CPROVER_assert(len == 1 || buf[%(m)d - len] != '0', "no leading zero");
''' % dict(m=maxd, wt=wt, fn=fn)
    else:
        body = '''
  char buf[%(m)d];
  %(wt)s n;
  unsigned int len = %(fn)s(buf, n);
  __CPROVER_assert(len >= 1 && len <= %(m)d, "between one and %(m)d digits");
  unsigned long long v = 0;
  for (unsigned int i = 0; i < len; i++) {
    char c = buf[len - 1 - i];
    __CPROVER_assert(c >= '0' && c <= '9', "every emitted unit is a decimal digit");
    v = v * 10 + (unsigned long long)(c - '0');
  }
  __CPROVER_assert(v == (unsigned long long)n, "the reversed digits denote exactly the number");
  __CPROVER_assert(len == 1 || buf[len - 1] != '0', "no leading zero");
''' % dict(m=maxd, wt=wt, fn=fn)
    return dict(name='IntToString<%s,%d-bit>.exact' % ('reverse' if rev else 'forward', bits), unit=UNIT, fn=fn, roots=[q], specs={}, mode='raw',
                harness='void qx_harness(void)\n{' + body + '}\n', unwind=maxd + 2, solver='cadical', timeout=600, objbits=8, canary=False,
                must_have=['assertion', 'unwind'],
                clause='every %d-bit integer is written as its exact decimal representation without a leading zero (all 2^%d values, loops unwound to their constant bound)' % (bits, bits))


def jobs(tier):
    out = []
    for rev in (False, True):
        out.append(exact_job(rev, 'unsigned char', 'unsigned_char', 3, 8))
        out.append(exact_job(rev, 'unsigned short', 'unsigned_short', 5, 16))
    # 64-bit: bounds / termination by loop contract -- does NOT finish (out of memory at 12 GB per obligation: chained 64-bit division by 100);
    # kept for the record and not run
    for rev in ():
        fn = 'Digit_IntToString__%s_char_unsigned_long_long' % ('m1' if rev else '0')
        q = 'Qentem::Digit::IntToString<%s, char, unsigned long long>' % ('-1' if rev else '0')
        PO = '__CPROVER_POINTER_OFFSET(storage)'
        if not rev:
            req = ['__CPROVER_is_fresh(g_buf, 20)', 'storage == g_buf + 20']
            inv = ['__CPROVER_same_object(storage, g_buf)', '%s >= 2 && %s <= 20 && (%s %% 2) == 0' % (PO, PO, PO),
                   '(%s == 20) ==> 1' % PO] + ['(%s <= %d) ==> number <= %dULL' % (PO, 20 - 2 * j, (2**64 - 1) // (100 ** j)) for j in range(1, 10)]
            dec = PO
            ens = ['__CPROVER_return_value >= 1 && __CPROVER_return_value <= 20']
        else:
            req = ['__CPROVER_is_fresh(storage, 20)']
            inv = ['__CPROVER_same_object(storage, str)', '%s >= 0 && %s <= 18 && (%s %% 2) == 0' % (PO, PO, PO)] + \
                  ['(%s >= %d) ==> number <= %dULL' % (PO, 2 * j, (2**64 - 1) // (100 ** j)) for j in range(1, 10)]
            dec = '20 - ' + PO
            ens = ['__CPROVER_return_value >= 1 && __CPROVER_return_value <= 20']
        sp = dict(requires=req, ensures=ens, assigns=['__CPROVER_object_whole(%s)' % ('g_buf' if not rev else 'storage')],
                  loops={0: dict(invariant=inv, decreases=dec, assigns='number, storage, __CPROVER_object_whole(%s)' % ('g_buf' if not rev else 'str'))})
        out.append(dict(name='IntToString<%s,64-bit>.bounds' % ('reverse' if rev else 'forward'), unit=UNIT, fn=fn, roots=[q], specs={fn: sp},
                        ghosts=[('char *', 'g_buf')] if not rev else [], solver='cadical', timeout=600, objbits=9, split=4,
                        must_have=['postcondition', 'loop_invariant_step', 'loop_decreases', 'pointer_dereference'],
                        clause='64-bit integer formatting writes only inside its 20-unit buffer, terminates and produces 1..20 units'))
    return out
