EXPLANATION = ('Digit::IntToString: exact decimal text for every 8- and 16-bit value in both directions (loops unwound to their constant bound, the value read back from the '
               'emitted digits in wider arithmetic); the 32/64-bit instances of the same template text are not decided.')
TRUSTED = []
ASSUMPTIONS = ['digit correctness for 32/64-bit integers is NOT decided (chained division by 100 does not finish on the installed back ends); finite-real formatting is not under contract']
UNIT = dict(driver='digit.cpp')


def exact_job(rev, wt, wts, maxd, bits):
    fn = 'Digit_IntToString__%s_char_%s' % ('m1' if rev else '0', wts)
    q = 'Qentem::Digit::IntToString<%s, char, %s>' % ('-1' if rev else '0', wt)
    if not rev:
        body = '''
  char buf[%(m)d];
  %(wt)s n;
  unsigned int len = %(fn)s(buf + %(m)d, n);
  __CPROVER_assert(len >= 1 && len <= %(m)d, "between one and %(m)d digits");
  unsigned long long v = 0;
  for (unsigned int i = 0; i < len; i++) {
    char c = buf[%(m)d - len + i];
    __CPROVER_assert(c >= '0' && c <= '9', "every emitted unit is a decimal digit");
    v = v * 10 + (unsigned long long)(c - '0');
  }
  __CPROVER_assert(v == (unsigned long long)n, "the digits denote exactly the number");
  __CPROVER_assert(len == 1 || buf[%(m)d - len] != '0', "no leading zero");
''' % dict(m=maxd, wt=wt, fn=fn)
    else:
        body = '''
  char buf[%(m)d];
  %(wt)s n;
  unsigned int len = %(fn)s(buf, n);
  __CPROVER_assert(len >= 1 && len <= %(m)d, "between one and %(m)d digits");
  unsigned long long v = 0;
  for (unsigned int i = 0; i < len; i++) {
    char c = buf[len - 1 - i];
    __CPROVER_assert(c >= '0' && c <= '9', "every emitted unit is a decimal digit");
    v = v * 10 + (unsigned long long)(c - '0');
  }
  __CPROVER_assert(v == (unsigned long long)n, "the reversed digits denote exactly the number");
  __CPROVER_assert(len == 1 || buf[len - 1] != '0', "no leading zero");
''' % dict(m=maxd, wt=wt, fn=fn)
    return dict(name='IntToString<%s,%d-bit>.exact' % ('reverse' if rev else 'forward', bits), unit=UNIT, fn=fn, roots=[q], specs={}, mode='raw',
                harness='void qx_harness(void)\n{' + body + '}\n', unwind=maxd + 2, solver='cadical', timeout=600, objbits=8, canary=False,
                must_have=['assertion', 'unwind'],
                clause='every %d-bit integer is written as its exact decimal representation without a leading zero (all 2^%d values, loops unwound to their constant bound)' % (bits, bits))


def jobs(tier):
    out = []
    for rev in (False, True):
        out.append(exact_job(rev, 'unsigned char', 'unsigned_char', 3, 8))
        out.append(exact_job(rev, 'unsigned short', 'unsigned_short', 5, 16))
    # 64-bit: bounds / termination by loop contract -- does NOT finish (out of memory at 12 GB per obligation: chained 64-bit division by 100);
    # kept for the record and not run
    for rev in ():
        fn = 'Digit_IntToString__%s_char_unsigned_long_long' % ('m1' if rev else '0')
        q = 'Qentem::Digit::IntToString<%s, char, unsigned long long>' % ('-1' if rev else '0')
        PO = '__CPROVER_POINTER_OFFSET(storage)'
        if not rev:
            req = ['__CPROVER_is_fresh(g_buf, 20)', 'storage == g_buf + 20']
            inv = ['__CPROVER_same_object(storage, g_buf)', '%s >= 2 && %s <= 20 && (%s %% 2) == 0' % (PO, PO, PO),
                   '(%s == 20) ==> 1' % PO] + ['(%s <= %d) ==> number <= %dULL' % (PO, 20 - 2 * j, (2**64 - 1) // (100 ** j)) for j in range(1, 10)]
            dec = PO
            ens = ['__CPROVER_return_value >= 1 && __CPROVER_return_value <= 20']
        else:
            req = ['__CPROVER_is_fresh(storage, 20)']
            inv = ['__CPROVER_same_object(storage, str)', '%s >= 0 && %s <= 18 && (%s %% 2) == 0' % (PO, PO, PO)] + \
                  ['(%s >= %d) ==> number <= %dULL' % (PO, 2 * j, (2**64 - 1) // (100 ** j)) for j in range(1, 10)]
            dec = '20 - ' + PO
            ens = ['__CPROVER_return_value >= 1 && __CPROVER_return_value <= 20']
        sp = dict(requires=req, ensures=ens, assigns=['__CPROVER_object_whole(%s)' % ('g_buf' if not rev else 'storage')],
                  loops={0: dict(invariant=inv, decreases=dec, assigns='number, storage, __CPROVER_object_whole(%s)' % ('g_buf' if not rev else 'str'))})
        out.append(dict(name='IntToString<%s,64-bit>.bounds' % ('reverse' if rev else 'forward'), unit=UNIT, fn=fn, roots=[q], specs={fn: sp},
                        ghosts=[('char *', 'g_buf')] if not rev else [], solver='cadical', timeout=600, objbits=9, split=4,
                        must_have=['postcondition', 'loop_invariant_step', 'loop_decreases', 'pointer_dereference'],
                        clause='64-bit integer formatting writes only inside its 20-unit buffer, terminates and produces 1..20 units'))
    return out


# ---- realToString: non-finite values and zero (the finite-value digit pipeline is cut: not decided) ---------------------------------
R2S = 'Digit_realToString__double_QV_GStream__char_unsigned_long_long'
QR2S = 'Qentem::Digit::realToString<double, QV::GStream<char>, unsigned long long>'
W_ = 'QV_GStream__char_Write'
AP_ = 'QV_GStream__char_op_add_assign'
LEN_ = 'QV_GStream__char_Length'
B2S = 'Digit_bigIntToString__QV_GStream__char_BigInt__unsigned_long_long_1216'
FIX0 = 'Digit_formatStringNumberFixed__0_QV_GStream__char'
FIX1 = 'Digit_formatStringNumberFixed__m1_QV_GStream__char'
FDEF = 'Digit_formatStringNumberDefault__QV_GStream__char'
ZL = 'Digit_insertZerosLarge__QV_GStream__char'
GHR = [('unsigned int', 'g_n')] + [('unsigned int', 'g_u%d' % i) for i in range(4)] + [('unsigned int', 'g_zeros'), ('unsigned int', 'g_zero_calls')]


def _rec(i, val):
    return ['(__CPROVER_old(g_n) <= %d && %d < __CPROVER_old(g_n) + (%s)) ==> g_u%d == %s' % (i, i, 'LEN', i, val(i)),
            '!(__CPROVER_old(g_n) <= %d && %d < __CPROVER_old(g_n) + (%s)) ==> g_u%d == __CPROVER_old(g_u%d)' % (i, i, 'LEN', i, i)]


def r2s_jobs():
    out = []
    ap = dict(requires=['1 == 1'], assigns=['g_n', 'g_u0', 'g_u1', 'g_u2', 'g_u3'],
              ensures=['g_n == __CPROVER_old(g_n) + 1'] + sum([[e.replace('LEN', '1') for e in _rec(i, lambda i: '(unsigned int)(unsigned char)ch')] for i in range(4)], []))
    wr = dict(requires=['length == 0 || __CPROVER_r_ok(str, length)', 'length <= 4'], assigns=['g_n', 'g_u0', 'g_u1', 'g_u2', 'g_u3'],
              ensures=['g_n == __CPROVER_old(g_n) + length'] + sum([[e.replace('LEN', 'length') for e in _rec(i, lambda i: '(unsigned int)(unsigned char)str[%d - __CPROVER_old(g_n)]' % i)] for i in range(4)], []))
    zl = dict(requires=['1 == 1'], assigns=['g_zeros', 'g_zero_calls'], ensures=['g_zeros == length', 'g_zero_calls == __CPROVER_old(g_zero_calls) + 1'])
    cut = dict(assigns=[], ensures=[])
    cutl = dict(assigns=[], ensures=['__CPROVER_return_value >= 0'])
    callee = {AP_: ap, W_: wr, ZL: zl, B2S: cut, FIX0: cut, FIX1: cut, FDEF: cut, LEN_: cutl}
    text = lambda s: ['g_n == %d' % len(s)] + ['g_u%d == %d' % (i, ord(ch)) for i, ch in enumerate(s)]
    EXP = '(number & 0x7FF0000000000000ULL)'
    MAN = '(number & 0x000FFFFFFFFFFFFFULL)'
    NEG = '((number >> 63) != 0)'
    base_req = ['__CPROVER_is_fresh(stream, sizeof(*stream))', 'g_n == 0 && g_zero_calls == 0', 'format.Type <= 2']

    def job(name, req, ens, clause, **kw):
        sp = dict(callee)
        sp[R2S] = dict(requires=base_req + req, ensures=ens, assigns=['g_n', 'g_u0', 'g_u1', 'g_u2', 'g_u3', 'g_zeros', 'g_zero_calls'], harness_setup=['g_n = 0; g_zero_calls = 0;'])
        j = dict(name='realToString<double>.' + name, unit=UNIT, fn=R2S, roots=[QR2S], specs=sp, replace=list(callee), cuts=[B2S, FIX0, FIX1, FDEF, ZL],
                 ghosts=GHR, pre_unwind=1, solver='cadical', timeout=600, objbits=10, must_have=['postcondition'], clause=clause, cex_K=1)
        j.update(kw)
        return j
    out.append(job('non-finite', ['%s == 0x7FF0000000000000ULL' % EXP],
                   ['(%s == 0 && !%s) ==> (%s)' % (MAN, NEG, ' && '.join(text('inf'))),
                    '(%s == 0 && %s) ==> (%s)' % (MAN, NEG, ' && '.join(text('-inf'))),
                    '(%s != 0) ==> (%s)' % (MAN, ' && '.join(text('nan'))), 'g_zero_calls == 0'],
                   'infinities and NaN print as inf, -inf and nan for every precision and format'))
    out.append(job('zero.general', ['(number << 1) == 0', 'format.Type == 0 || format.Type == 2'],
                   ['!%s ==> (%s)' % (NEG, ' && '.join(text('0'))), '%s ==> (%s)' % (NEG, ' && '.join(text('-0'))), 'g_zero_calls == 0'],
                   'zero prints as 0 (-0 keeps its sign, like %g) in the default and semi-fixed formats'))
    out.append(job('zero.fixed', ['(number << 1) == 0', 'format.Type == 1', 'format.Precision >= 1'],
                   ['!%s ==> (%s)' % (NEG, ' && '.join(text('0.'))), '%s ==> (%s)' % (NEG, ' && '.join(text('-0.'))), 'g_zero_calls == 1 && g_zeros == format.Precision'],
                   'zero in fixed format prints 0. followed by exactly precision zeros (precision >= 1)'))
    out.append(job('zero.fixed.precision0', ['(number << 1) == 0', 'format.Type == 1', 'format.Precision == 0'],
                   ['!%s ==> (%s)' % (NEG, ' && '.join(text('0'))), '%s ==> (%s)' % (NEG, ' && '.join(text('-0')))],
                   'zero in fixed format with precision 0 prints like %.0f, without a point'))
    return out


_jobs_c10 = jobs


def jobs(tier):
    return _jobs_c10(tier) + r2s_jobs()
