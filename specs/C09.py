from lib_json import UNIT, FN_S2N, FN_PEXP, FN_PNEG, FN_PPOS, FN_HEX64, s2n_specs

EXPLANATION = ('Digit::stringToNumber on integer numerals: for every numeral [-]d1..dn of n <= 20 digits filling the whole buffer (all digit strings of each length, '
               'one CBMC run per length, loops unwound) the result kind and the 64-bit payload equal the mathematical value recomputed in 80-bit arithmetic; '
               'leading zeros and sign-only inputs are rejected; plus the all-lengths memory-safety/termination proof shared with C05.')
TRUSTED = ['powerOfPositiveTen / powerOfNegativeTen (big-number scaling of reals) are cut: the real-valued results are NOT decided']
ASSUMPTIONS = ['"within one ulp", tie rounding and the out-of-range band depend on 256-bit multiply/shift chains that no installed back end decides']

PRE = '''
typedef unsigned __CPROVER_bitvector[80] qx_wide;
static qx_wide qx_value(const char *c, unsigned int from, unsigned int n) { qx_wide v = 0; for (unsigned int i = from; i < n; i++) v = v * 10 + (qx_wide)(c[i] - '0'); return v; }
static _Bool qx_alldigits(const char *c, unsigned int from, unsigned int n) { for (unsigned int i = from; i < n; i++) if (c[i] < '0' || c[i] > '9') return 0; return 1; }
#define TWO64 (((qx_wide)1) << 64)
#define TWO63 (((qx_wide)1) << 63)
'''
NATIVE_PRE = '''
typedef unsigned __int128 qx_wide;
static qx_wide qx_value(const char *c, unsigned int from, unsigned int n) { qx_wide v = 0; for (unsigned int i = from; i < n; i++) v = v * 10 + (qx_wide)(c[i] - '0'); return v; }
static _Bool qx_alldigits(const char *c, unsigned int from, unsigned int n) { for (unsigned int i = from; i < n; i++) if (c[i] < '0' || c[i] > '9') return 0; return 1; }
#define TWO64 (((qx_wide)1) << 64)
#define TWO63 (((qx_wide)1) << 63)
'''


def jobs(tier):
    out = []
    cut = dict(stub_body='  ;')
    callee = {FN_PEXP: dict(stub_body='  _Bool b; return b;'), FN_PNEG: cut, FN_PPOS: cut, FN_HEX64: dict(stub_body='  unsigned long long v; return v;')}
    # unsigned numerals: digits only, first digit non-zero unless the numeral is "0"
    V = 'qx_value(content, 0, end_offset)'
    spec_u = dict(buffers=[('content', 'end_offset')], refs=['number', 'offset'],
                  requires=['*offset == 0', 'end_offset >= 1', 'qx_alldigits(content, 0, end_offset)', 'end_offset == 1 || content[0] != 48'],
                  ensures=['%s < TWO64 ==> (__CPROVER_return_value == 2 && (qx_wide)number->Natural == %s && *offset == end_offset)' % (V, V),
                           '%s >= TWO64 ==> __CPROVER_return_value != 2 && __CPROVER_return_value != 3' % V])
    out.append(dict(name='stringToNumber<char>.unsigned-integers', unit=UNIT, fn=FN_S2N, roots=['Qentem::Digit::stringToNumber<char>'], mode='harness', cuts=[FN_PNEG, FN_PPOS, FN_PEXP],
                    specs=dict(callee, **{FN_S2N: spec_u}), pre=PRE, native_pre=NATIVE_PRE, sweep=('end_offset', list(range(1, 22))), sweep_par=8, weight=8,
                    harness_K=21, harness_unwind=24, solver='cadical', timeout=600, objbits=8, must_have=['assertion'],
                    bounded='every digit string of each length 1..21 (one run per length, loops unwound to the length)',
                    clause='an unsigned decimal numeral that fits 64 bits converts to kind natural with the exact value; larger ones are never reported as integers', cex_K=21, cex_unwind=24))
    VN = 'qx_value(content, 1, end_offset)'
    spec_n = dict(buffers=[('content', 'end_offset')], refs=['number', 'offset'],
                  requires=['*offset == 0', 'end_offset >= 2', 'content[0] == 45', 'qx_alldigits(content, 1, end_offset)', 'end_offset == 2 || content[1] != 48'],
                  ensures=['(%s <= TWO63 - 1 && %s != 0) ==> (__CPROVER_return_value == 3 && (qx_wide)(unsigned long long)(-number->Integer) == %s && *offset == end_offset)' % (VN, VN, VN),
                           '%s == 0 ==> (__CPROVER_return_value == 1 && number->Natural == 0x8000000000000000ULL)' % VN,
                           '%s > TWO63 ==> __CPROVER_return_value != 3 && __CPROVER_return_value != 2' % VN])
    out.append(dict(name='stringToNumber<char>.negative-integers', unit=UNIT, fn=FN_S2N, roots=['Qentem::Digit::stringToNumber<char>'], mode='harness', cuts=[FN_PNEG, FN_PPOS, FN_PEXP],
                    specs=dict(callee, **{FN_S2N: spec_n}), pre=PRE, native_pre=NATIVE_PRE, sweep=('end_offset', list(range(2, 23))), sweep_par=8, weight=8,
                    harness_K=22, harness_unwind=25, solver='cadical', timeout=600, objbits=8, must_have=['assertion'],
                    bounded='every negative digit string of each length 2..22 (one run per length)',
                    clause='a negative decimal numeral down to -(2^63-1) converts to kind integer with the exact value; -0 is the real -0.0', cex_K=22, cex_unwind=25))
    spec_r = dict(buffers=[('content', 'end_offset')], refs=['number', 'offset'],
                  requires=['*offset == 0', 'end_offset >= 1 && end_offset <= 6',
                            '(end_offset >= 2 && content[0] == 48 && content[1] >= 48 && content[1] <= 57) || '
                            '(end_offset == 1 && (content[0] == 45 || content[0] == 43 || content[0] == 46)) || '
                            '(end_offset >= 3 && content[0] == 45 && content[1] == 48 && content[2] >= 48 && content[2] <= 57)'],
                  ensures=['__CPROVER_return_value == 0'])
    out.append(dict(name='stringToNumber<char>.rejections', unit=UNIT, fn=FN_S2N, roots=['Qentem::Digit::stringToNumber<char>'], mode='harness', cuts=[FN_PNEG, FN_PPOS, FN_PEXP],
                    specs=dict(callee, **{FN_S2N: spec_r}), sweep=('end_offset', list(range(1, 7))), sweep_par=6, weight=6,
                    harness_K=6, harness_unwind=10, solver='cadical', timeout=300, objbits=8, must_have=['assertion'],
                    bounded='buffers of length 1..6',
                    clause='leading zeros, a lone sign and a lone dot are reported as not-a-number'))
    # all lengths: memory safety / termination (same job as C05)
    out.append(dict(name='stringToNumber<char>.memory-safety', unit=UNIT, fn=FN_S2N, roots=['Qentem::Digit::stringToNumber<char>'],
                    specs=s2n_specs(), replace=[FN_PEXP, FN_PNEG, FN_PPOS, FN_HEX64], solver='cadical', timeout=900, split=8, objbits=10,
                    must_have=['postcondition', 'loop_invariant_step', 'loop_decreases', 'pointer_dereference'],
                    clause='the converter reads only the numeral buffer, terminates, and never moves the cursor past its end (all lengths)'))
    return out
