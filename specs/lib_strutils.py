"""contracts for Qentem::StringUtils leaf functions, parametrised by character type"""

CHARS = {'char': 'char', 'char16_t': 'qx_char16', 'char32_t': 'qx_char32', 'wchar_t': 'qx_wchar'}
UNIT = dict(driver='strutils.cpp')
M = '(left_length < right_length ? left_length : right_length)'
GH_CMP = [('unsigned int', 'g_j'), ('unsigned int', 'g_k')]


def cmp_spec(less):
    """IsLess / IsGreater against the lexicographic definition.
    g_k: ghost export of the exit position (first difference, or min length);
    g_j: arbitrary position (universally quantified: it is an unconstrained input of the job)."""
    lt = 'left[g_k] < right[g_k]' if less else 'left[g_k] > right[g_k]'
    ln = 'left_length < right_length' if less else 'left_length > right_length'
    return dict(
        buffers=[('left', 'left_length'), ('right', 'right_length')],
        requires=['orEqual == 0 || orEqual == 1'],
        ghost_returns=['g_k = offset'],
        ensures=['g_k <= %s' % M,
                 'g_j < g_k ==> left[g_j] == right[g_j]',
                 'g_k < %s ==> left[g_k] != right[g_k]' % M,
                 '__CPROVER_return_value == ((g_k < %s && %s) || (g_k == %s && (%s || (orEqual && left_length == right_length))))' % (M, lt, M, ln)],
        assigns=['g_k'],
        loops={0: dict(invariant=['offset <= left_length && offset <= right_length', 'g_j < offset ==> left[g_j] == right[g_j]'],
                       decreases='left_length - offset', assigns='offset')},
    )


def eq_spec():
    return dict(
        buffers=[('left', 'length'), ('right', 'length')],
        ghost_returns=['g_k = offset'],
        ensures=['g_k <= length', 'g_j < g_k ==> left[g_j] == right[g_j]', 'g_k < length ==> left[g_k] != right[g_k]',
                 '__CPROVER_return_value == (g_k == length)'],
        assigns=['g_k'],
        loops={0: dict(invariant=['offset <= length', 'g_j < offset ==> left[g_j] == right[g_j]'], decreases='length - offset', assigns='offset')},
    )
