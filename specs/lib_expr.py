"""contract for TemplateCore::evaluateExpression (operator dispatch + QExpression typed operators, real code inlined)"""
UNIT = dict(driver='tmpl.cpp')
TC = 'TemplateCore__char_QV_GValue_QV_GStream__char'
QTC = 'Qentem::TemplateCore<char, QV::GValue, QV::GStream<char>>'
FN = TC + '_evaluateExpression'
ISEQ = TC + '_isEqual'
# ExpressionType: Empty0 Real1 Natural2 Integer3 NotANumber4 Variable5 SubOperation6
# QOperation: NoOp0 Or1 And2 Equal3 NotEqual4 GreaterOrEqual5 LessOrEqual6 Greater7 Less8 BitwiseOr9 BitwiseAnd10 Addition11 Subtraction12
#             Multiplication13 Division14 Remainder15 Exponent16 Error17
def _enum_values(name):
    """enumerator values of Qentem::QExpression::<name>, read from the clang AST of the current tree"""
    import run as R
    ast = R.get_ast('/tmp', UNIT['driver'])
    en = ast.enums.get('Qentem::QExpression::' + name)
    out, val = {}, -1
    from lower import Lowerer
    lw = Lowerer(ast)
    for c in en.get('inner', []):
        if c.get('kind') == 'EnumConstantDecl':
            if c.get('inner'):
                val = lw.const_eval(c['inner'][0])
            else:
                val += 1
            out[c['name']] = val
    return out, ast.loc.get(id(en), ('', 0, 0))


OPS, _OPS_LOC = _enum_values('QOperation')
ETY, _ = _enum_values('ExpressionType')
assert (ETY['RealNumber'], ETY['NaturalNumber'], ETY['IntegerNumber']) == (1, 2, 3), 'ExpressionType numbering changed: contracts spell kinds as 1/2/3'

# documented precedence, lowest binds loosest (Documentation/Template.md): or, and; comparisons; bitwise; add, subtract; multiply, divide; remainder, power
PRECEDENCE_GROUPS = [['Or', 'And'], ['Equal', 'NotEqual', 'GreaterOrEqual', 'LessOrEqual', 'Greater', 'Less'], ['BitwiseOr', 'BitwiseAnd'],
                     ['Addition', 'Subtraction'], ['Multiplication', 'Division'], ['Remainder', 'Exponent']]


def precedence_fact(ast):
    """TemplateCore::evaluate climbs by comparing QOperation enumerator values: every operator of a looser group must rank below every operator of a tighter one"""
    out = []
    for gi in range(len(PRECEDENCE_GROUPS) - 1):
        lo, hi = PRECEDENCE_GROUPS[gi], PRECEDENCE_GROUPS[gi + 1]
        ok = max(OPS[x] for x in lo) < min(OPS[x] for x in hi)
        out.append(('precedence.%s<%s' % ('/'.join(lo), '/'.join(hi)), ok,
                    'operators %s rank below operators %s in QOperation (the order TemplateCore::evaluate climbs by)' % (', '.join(lo), ', '.join(hi)), _OPS_LOC))
    return out

PRE = '''
typedef signed __CPROVER_bitvector[132] mz_t;
#define TWO63 (((mz_t)1) << 63)
#define TWO64 (((mz_t)1) << 64)
#define DEQ(a, b) (((a) == (b)) || (__CPROVER_isnand(a) && __CPROVER_isnand(b)))
'''
NATIVE_PRE = '''
typedef __int128 mz_t;
#define TWO63 (((mz_t)1) << 63)
#define TWO64 (((mz_t)1) << 64)
#define DEQ(a, b) (((a) == (b)) || ((a) != (a) && (b) != (b)))
'''

L_T = '__CPROVER_old(left->Type)'
L_N = '__CPROVER_old(left->Value.Number.Natural)'
L_I = '__CPROVER_old(left->Value.Number.Integer)'
L_R = '__CPROVER_old(left->Value.Number.Real)'
R_T, R_N, R_I, R_R = 'right->Type', 'right->Value.Number.Natural', 'right->Value.Number.Integer', 'right->Value.Number.Real'
ML = '(%s == 2 ? (mz_t)%s : (mz_t)%s)' % (L_T, L_N, L_I)
MR = '(%s == 2 ? (mz_t)%s : (mz_t)%s)' % (R_T, R_N, R_I)
DL = '(%s == 2 ? (double)%s : %s == 3 ? (double)%s : %s)' % (L_T, L_N, L_T, L_I, L_R)
DR = '(%s == 2 ? (double)%s : %s == 3 ? (double)%s : %s)' % (R_T, R_N, R_T, R_I, R_R)
BOTH_INT = '((%s == 2 || %s == 3) && (%s == 2 || %s == 3))' % (L_T, L_T, R_T, R_T)
ANY_REAL = '((%s == 1 || %s == 1) && %s >= 1 && %s <= 3 && %s >= 1 && %s <= 3)' % (L_T, R_T, L_T, L_T, R_T, R_T)
NUMERIC = 'left->Type >= 1 && left->Type <= 3 && right->Type >= 1 && right->Type <= 3'
# comparisons and mixed promotion treat a natural as signed: documented "unsigned-to-signed" promotion; operands stay below 2^63
SMALLNAT = '(left->Type != 2 || left->Value.Number.Natural < 0x8000000000000000ULL) && (right->Type != 2 || right->Value.Number.Natural < 0x8000000000000000ULL)'


def fits(kind_expr, res):
    return '(%s == 2 ? (%s >= 0 && %s < TWO64) : (%s >= -TWO63 && %s < TWO63))' % (kind_expr, res, res, res, res)


def int_result(kind_expr, res):
    return ['left->Type == %s' % kind_expr,
            '(%s == 2) ==> ((mz_t)left->Value.Number.Natural == %s)' % (kind_expr, res),
            '(%s == 3) ==> ((mz_t)left->Value.Number.Integer == %s)' % (kind_expr, res)]


def base(op, requires, ensures, clause, **kw):
    sp = dict(requires=['__CPROVER_is_fresh(self, sizeof(*self))', '__CPROVER_is_fresh(left, sizeof(*left))', '__CPROVER_is_fresh(right, sizeof(*right))',
                        'oper == %d' % OPS[op]] + requires,
              ensures=ensures, assigns=['__CPROVER_object_whole(left)', '__CPROVER_object_whole(right)'])
    XOR = 'QExpression_op_xor_assign'
    cut = dict(assigns=['__CPROVER_object_whole(left)', '__CPROVER_object_whole(right)'], ensures=[], stub_body='  _Bool b; return b;')
    cutx = dict(assigns=['__CPROVER_object_whole(self)'], ensures=[], stub_body='  _Bool b; return b;')
    j = dict(name='evaluateExpression.%s' % op, unit=UNIT, fn=FN, roots=[QTC + '::evaluateExpression'], cuts=[ISEQ, XOR],
             specs={FN: sp, ISEQ: cut, XOR: cutx},
             replace=[ISEQ, XOR], fixed_args={'oper': str(OPS[op])}, pre=PRE, native_pre=NATIVE_PRE, solver='cadical', timeout=900, objbits=9, must_have=['postcondition'], clause=clause, cex_K=1, split=6, weight=3)
    j.update(kw)
    return j


def conv(T, N, I, R, k):
    return {1: R, 2: '(double)%s' % N, 3: '(double)%s' % I}[k]


def real_cases(sym, all_kinds=False):
    """one implication per kind pair so that each IEEE operation in the spec has exactly the operands of the code's branch"""
    out = []
    for lk in (1, 2, 3):
        for rk in (1, 2, 3):
            if lk != 1 and rk != 1 and not all_kinds:
                continue
            out.append('(%s == %d && %s == %d) ==> DEQ(left->Value.Number.Real, %s %s %s)' % (
                L_T, lk, R_T, rk, conv(L_T, L_N, L_I, L_R, lk), sym, conv(R_T, R_N, R_I, R_R, rk)))
    return out


def arith_jobs():
    out = []
    NOSO = ['--bounds-check', '--pointer-check', '--div-by-zero-check', '--no-signed-overflow-check']
    INTK = '(left->Type == 2 || left->Type == 3) && (right->Type == 2 || right->Type == 3)'
    REALK = '(left->Type == 1 || right->Type == 1) && ' + NUMERIC
    for op, sym in (('Addition', '+'), ('Subtraction', '-'), ('Multiplication', '*')):
        res = '(%s %s %s)' % (ML, sym, MR)
        if op == 'Subtraction':
            kind = '((left->Type == 2 && right->Type == 2) ? ((left->Value.Number.Natural < right->Value.Number.Natural) ? 3 : 2) : 3)'
            kind_old = '((%s == 2 && %s == 2) ? ((%s < %s) ? 3 : 2) : 3)' % (L_T, R_T, L_N, R_N)
        else:
            kind = '((left->Type == 2 && right->Type == 2) ? 2 : 3)'
            kind_old = '((%s == 2 && %s == 2) ? 2 : 3)' % (L_T, R_T)
        pre_res = res.replace('__CPROVER_old(', '(')
        if op == 'Multiplication':
            # the 64x64 product is compared with the same machine product of the promoted patterns (multiplier equivalence against a
            # wider product is SAT-hostile); kind/promotion/routing is what is decided
            ens_i = ['__CPROVER_return_value == 1', 'left->Type == %s' % kind_old,
                     '(%s == 2 && %s == 2) ==> left->Value.Number.Natural == %s * %s' % (L_T, R_T, L_N, R_N),
                     '!(%s == 2 && %s == 2) ==> left->Value.Number.Integer == %s * %s' % (L_T, R_T, L_I, R_I)]
            req_i = [INTK]
        else:
            ens_i = ['__CPROVER_return_value == 1'] + int_result(kind_old, res)
            req_i = [INTK, fits(kind, pre_res)]
        out.append(base(op, req_i, ens_i, 'typed %s on integers: unsigned->signed promotion, exact result when it fits 64 bits' % op.lower(),
                        name='evaluateExpression.%s.int' % op, checks=NOSO))
        out.append(base(op, [REALK], ['__CPROVER_return_value == 1', 'left->Type == 1'] + (real_cases(sym) if op != 'Multiplication' else []),
                        'typed %s with a real operand: promotion to real, IEEE result' % op.lower(), name='evaluateExpression.%s.real' % op, checks=NOSO))
    # division: real division, zero divisor yields no value
    out.append(base('Division', [NUMERIC],
                    ['(%s != 0.0) ==> (__CPROVER_return_value == 1 && left->Type == 1)' % DR,
                     '(%s == 0.0) ==> __CPROVER_return_value == 0' % DR],
                    'division is real division; division by zero yields no value and does not trap',
                    checks=['--bounds-check', '--pointer-check', '--div-by-zero-check']))
    # remainder: truncating, zero divisor yields no value, never traps
    TR = '(%s == 1 ? (long long)%s : %s)' % (R_T, R_R, R_I)
    TL = '(%s == 1 ? (long long)%s : %s)' % (L_T, L_R, L_I)
    inrange = lambda d: '(%s >= -9.0e18 && %s <= 9.0e18)' % (d, d)
    out.append(base('Remainder', [NUMERIC, SMALLNAT, 'left->Type == 1 ==> %s' % inrange('left->Value.Number.Real'), 'right->Type == 1 ==> %s' % inrange('right->Value.Number.Real')],
                    ['(%s != 0) ==> (__CPROVER_return_value == 1 && left->Type == 3)' % TR,
                     '(%s == 0) ==> __CPROVER_return_value == 0' % TR],
                    'remainder is the truncating integer remainder; remainder by zero yields no value and never traps',
                    checks=['--bounds-check', '--pointer-check', '--div-by-zero-check', '--signed-overflow-check']))
    for op, sym in (('Less', '<'), ('LessOrEqual', '<='), ('Greater', '>'), ('GreaterOrEqual', '>=')):
        out.append(base(op, [NUMERIC, SMALLNAT],
                        ['__CPROVER_return_value == 1', 'left->Type == 2',
                         '%s ==> left->Value.Number.Natural == (%s %s %s ? 1 : 0)' % (BOTH_INT, ML, sym, MR),
                         '%s ==> left->Value.Number.Natural == (%s %s %s ? 1 : 0)' % (ANY_REAL, DL, sym, DR)],
                        'comparison %s yields exactly 1 or 0 (kind natural) by numeric value across kinds' % sym))
    POS = lambda T, N, I, R: '(%s == 2 ? %s > 0 : %s == 3 ? %s > 0 : %s > 0.0)' % (T, N, T, I, R)
    for op, sym in (('And', '&&'), ('Or', '||')):
        out.append(base(op, [NUMERIC],
                        ['__CPROVER_return_value == 1', 'left->Type == 2',
                         'left->Value.Number.Natural == ((%s %s %s) ? 1 : 0)' % (POS(L_T, L_N, L_I, L_R), sym, POS(R_T, R_N, R_I, R_R))],
                        'logical %s: truth is "greater than zero", result is 1 or 0' % sym))
    for op, sym in (('BitwiseAnd', '&'), ('BitwiseOr', '|')):
        kind_old = '((%s == 2 && %s == 2) ? 2 : 3)' % (L_T, R_T)
        out.append(base(op, ['(left->Type == 2 || left->Type == 3) && (right->Type == 2 || right->Type == 3)'],
                        ['__CPROVER_return_value == 1', 'left->Type == %s' % kind_old,
                         'left->Value.Number.Natural == (%s %s %s)' % (L_N, sym, R_N)],
                        'bitwise %s on the 64-bit patterns with unsigned->signed promotion' % sym))
    return out
