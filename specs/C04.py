from lib_expr import *

EXPLANATION = ('TemplateCore::evaluateExpression (operator dispatch) with the real QExpression typed operators inlined is enforced, operator by operator, '
               'over all operand kinds and all 64-bit payloads (loop-free, full domain) against a table written from the documented semantics.')
TRUSTED = ['TemplateCore is instantiated with a verification value type (QV::GValue) whose members are cut; isEqual (textual ==/!=) is a cut callee']
ASSUMPTIONS = ['natural operands of comparisons / remainder stay below 2^63 (documented unsigned-to-signed promotion)',
               'IEEE operations are compared with the same IEEE operation (bit-precise in CBMC): promotion and routing are what is decided',
               'precedence climbing (evaluate), operand parsing and operator recognition are not under contract yet']


def jobs(tier):
    return arith_jobs()
