from lib_expr import *

EXPLANATION = ('TemplateCore::evaluateExpression (operator dispatch) with the real QExpression typed operators inlined is enforced, operator by operator, '
               'over all operand kinds and all 64-bit payloads (loop-free, full domain) against a table written from the documented semantics.')
TRUSTED = ['TemplateCore is instantiated with a verification value type (QV::GValue) whose members are cut; isEqual (textual ==/!=) is a cut callee']
ASSUMPTIONS = ['the precedence-table job is a supporting static fact read off the clang AST, not a CBMC obligation; TemplateCore::evaluate (the climbing loop itself) is not under contract',
               'natural operands of comparisons / remainder stay below 2^63 (documented unsigned-to-signed promotion)',
               'IEEE operations are compared with the same IEEE operation (bit-precise in CBMC): promotion and routing are what is decided',
               'precedence climbing (evaluate), operand parsing and operator recognition are not under contract yet']


def jobs(tier):
    out = arith_jobs()
    out.append(dict(name='precedence-table.static', unit=UNIT, fn='-', roots=[], specs={}, mode='static', static_fn=precedence_fact, canary=False, bounded='supporting static fact on the clang AST (not a CBMC obligation)',
                    clause='supporting static fact: the operator rank table (QOperation enumerator order) matches the documented precedence groups'))
    return out
