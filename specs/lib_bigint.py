"""contracts for Qentem::BigInt<Word, 4 words>; the abstract value is a bit-vector wider than the object"""
UNIT = dict(driver='bigint.cpp')
WORDS = {8: ('unsigned char', 32), 16: ('unsigned short', 64), 32: ('unsigned int', 128), 64: ('unsigned long long', 256)}
WIDE = {8: 'unsigned int', 16: 'unsigned int', 32: 'unsigned long long', 64: 'unsigned __int128'}
WIDEBITS = {8: 32, 16: 32, 32: 64, 64: 128}
N = 4


def cls(w):
    return 'BigInt__%s_%d' % (WORDS[w][0].replace(' ', '_'), WORDS[w][1])


def qcls(w):
    return 'Qentem::BigInt<%s, %d>' % WORDS[w]


def pre(w):
    return 'typedef unsigned __CPROVER_bitvector[%d] bv_t;\n#define QW %d\n#define LIMIT (((bv_t)1) << (4 * QW))\n' % (5 * w + 8, w)


def val(b='self', old=False):
    f = (lambda i: '__CPROVER_old(%s->storage_[%d])' % (b, i)) if old else (lambda i: '%s->storage_[%d]' % (b, i))
    return '(' + ' | '.join('(((bv_t)%s) << (%d * QW))' % (f(i), i) for i in range(N)) + ')'


def wf(b='self'):
    above = ' && '.join('(%s->index_ >= %d || %s->storage_[%d] == 0)' % (b, i, b, i) for i in range(1, N))
    return '(%s->index_ <= %d && %s && (%s->index_ == 0 || %s->storage_[%s->index_] != 0))' % (b, N - 1, above, b, b, b)


def frame(b='self'):
    return ['__CPROVER_object_whole(%s)' % b]


def self_obj(w, b='self'):
    return '__CPROVER_is_fresh(%s, sizeof(struct %s))' % (b, cls(w))


def native_pre(w):
    if w <= 16:
        return 'typedef unsigned __int128 bv_t;\n#define QW %d\n#define LIMIT (((bv_t)1) << (4 * QW))\n' % w
    return '#define QW %d\n' % w
