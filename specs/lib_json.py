"""contracts shared by the JSON leaf units (C05, C07, C08, C20)"""
UNIT = dict(driver='json.cpp')
CHARS = {'char': 'char', 'char16_t': 'qx_char16', 'char32_t': 'qx_char32', 'wchar_t': 'qx_wchar'}
UCHAR = {'char': 'unsigned char', 'char16_t': 'qx_char16', 'char32_t': 'qx_char32', 'wchar_t': 'unsigned int'}
WIDTH = {'char': 1, 'char16_t': 2, 'char32_t': 4, 'wchar_t': 4}

# ---- ghost "unit recorder" protocol for Stream::operator+=(Char_T) and Stream::Write ------------------
# g_n counts emitted units, g_u0..g_u3 hold the first four, g_slices counts non-empty Write calls.
GH_REC = [('unsigned int', 'g_n'), ('unsigned int', 'g_u0'), ('unsigned int', 'g_u1'), ('unsigned int', 'g_u2'),
          ('unsigned int', 'g_u3'), ('unsigned int', 'g_slices')]


def rec_append_spec(c):
    """Stream += ch : records the unit"""
    u = UCHAR[c]
    return dict(
        requires=['g_n < 4'],
        assigns=['g_n', 'g_u0', 'g_u1', 'g_u2', 'g_u3'],
        ensures=['g_n == __CPROVER_old(g_n) + 1',
                 'g_u0 == (__CPROVER_old(g_n) == 0 ? (unsigned int)(%s)ch : __CPROVER_old(g_u0))' % u,
                 'g_u1 == (__CPROVER_old(g_n) == 1 ? (unsigned int)(%s)ch : __CPROVER_old(g_u1))' % u,
                 'g_u2 == (__CPROVER_old(g_n) == 2 ? (unsigned int)(%s)ch : __CPROVER_old(g_u2))' % u,
                 'g_u3 == (__CPROVER_old(g_n) == 3 ? (unsigned int)(%s)ch : __CPROVER_old(g_u3))' % u],
        stub_body='  if (g_n == 0) g_u0 = (unsigned int)(%s)ch; if (g_n == 1) g_u1 = (unsigned int)(%s)ch; if (g_n == 2) g_u2 = (unsigned int)(%s)ch; if (g_n == 3) g_u3 = (unsigned int)(%s)ch; __CPROVER_assert(g_n < 4, "at most four units"); g_n = g_n + 1;' % (u, u, u, u),
    )


def rec_write_spec():
    """Stream.Write(str, length): readable range; counts non-empty slices"""
    return dict(
        requires=['length == 0 || __CPROVER_r_ok(str, ((__CPROVER_size_t)length) * sizeof(*str))'],
        assigns=['g_slices'],
        ensures=['g_slices == __CPROVER_old(g_slices) + (length != 0 ? 1 : 0)'],
        stub_body='  if (length != 0) g_slices = g_slices + 1;',
    )


def nondet_bool_spec():
    return dict(assigns=[], ensures=['__CPROVER_return_value == 0 || __CPROVER_return_value == 1'],
                stub_body='  _Bool qx_b; return qx_b;')


def utf_expect(c, cp):
    """(count, [units]) expressions of the standard encoding of code point expression cp for char type c"""
    w = WIDTH[c]
    if w == 1:
        n = '(%s < 0x80u ? 1u : %s < 0x800u ? 2u : %s < 0x10000u ? 3u : 4u)' % (cp, cp, cp)
        u0 = '(%s < 0x80u ? %s : %s < 0x800u ? (0xC0u | (%s >> 6)) : %s < 0x10000u ? (0xE0u | (%s >> 12)) : (0xF0u | (%s >> 18)))' % (cp, cp, cp, cp, cp, cp, cp)
        u1 = '(%s < 0x800u ? (0x80u | (%s & 0x3Fu)) : %s < 0x10000u ? (0x80u | ((%s >> 6) & 0x3Fu)) : (0x80u | ((%s >> 12) & 0x3Fu)))' % (cp, cp, cp, cp, cp)
        u2 = '(%s < 0x10000u ? (0x80u | (%s & 0x3Fu)) : (0x80u | ((%s >> 6) & 0x3Fu)))' % (cp, cp, cp)
        u3 = '(0x80u | (%s & 0x3Fu))' % cp
        return n, [u0, u1, u2, u3]
    if w == 2:
        n = '(%s < 0x10000u ? 1u : 2u)' % cp
        u0 = '(%s < 0x10000u ? %s : (0xD800u | ((%s - 0x10000u) >> 10)))' % (cp, cp, cp)
        u1 = '(0xDC00u | ((%s - 0x10000u) & 0x3FFu))' % cp
        return n, [u0, u1]
    return '1u', [cp]


def utf_ensures(c, cp):
    n, us = utf_expect(c, cp)
    ens = ['g_n == %s' % n]
    for i, u in enumerate(us):
        ens.append('g_n > %d ==> g_u%d == %s' % (i, i, u))
    return ens


SCALAR = '(%s < 0x110000u && !(%s >= 0xD800u && %s <= 0xDFFFu))'

HEX_PRE = '''
#define QX_ISHEX(c) (((c) >= '0' && (c) <= '9') || ((c) >= 'A' && (c) <= 'F') || ((c) >= 'a' && (c) <= 'f'))
#define QX_HEXV(c) ((unsigned int)(((c) >= '0' && (c) <= '9') ? (c) - '0' : ((c) >= 'A' && (c) <= 'F') ? (c) - 'A' + 10 : (c) - 'a' + 10))
#define QX_HEX4(p) ((QX_HEXV((p)[0]) << 12) | (QX_HEXV((p)[1]) << 8) | (QX_HEXV((p)[2]) << 4) | QX_HEXV((p)[3]))
'''


def unescape_hex_scope(spec):
    """(regex of the obligations that state 'no accepted string has a \\u escape with fewer than four hex digits', regex of everything else)"""
    ens = spec['ensures']
    n = [i for i, e in enumerate(ens) if 'g_badhex' in e][0] + 1
    inv = [i for i, e in enumerate(spec['loops'][0]['invariant']) if 'g_badhex' in e][0] + 1
    mine = r'(UnEscape.*\.postcondition\.%d$)|(UnEscape.*\.loop_invariant_(base|step)\.%d$)' % (n, inv)
    return mine, r'^(?!%s).*$' % mine.replace('(UnEscape', '(?:.*UnEscape').replace('(base|step)', '(?:base|step)')


def hexall(p, n):
    """the first n (<= 4) units at p are hex digits"""
    return ' && '.join('(%s <= %d || QX_ISHEX(%s[%d]))' % (n, k, p, k) for k in range(4))


def sfx(c):
    return c


def stream_t(c):
    return 'QV_GStream__%s' % c


def fn_toutf(c):
    return 'Unicode_ToUTF__%s_QV_GStream__%s' % (c, c)


def fn_append(c):
    return 'QV_GStream__%s_op_add_assign' % c


def fn_write(c):
    return 'QV_GStream__%s_Write' % c


def fn_notempty(c):
    return 'QV_GStream__%s_IsNotEmpty' % c


def fn_hex3(c):
    t = {'char': 'char', 'char16_t': 'char16_t', 'char32_t': 'char32_t', 'wchar_t': 'wchar_t'}[c]
    return 'Digit_HexStringToNumber__unsigned_int_%s_unsigned_int__const_%s_p_unsigned_int_r_const_unsigned_int' % (t, t)


def fn_hex2(c):
    t = c
    return 'Digit_HexStringToNumber__unsigned_int_%s__const_%s_p_const_unsigned_int' % (t, t)


def fn_unescape(c):
    return 'JSONUtils_UnEscape__%s_QV_GStream__%s' % (c, c)


def fn_escape(c):
    return 'JSONUtils_Escape__%s_QV_GStream__%s' % (c, c)


# ghost flag: a hex reader stopped before the end of the range it was given (it met a unit that is not a hex digit)
GH_HEX = [('_Bool', 'g_badhex')]
# (a nondeterministic _Bool may carry any non-zero byte: compare by truth value, never with ==)
HEX_FLAG = ['(__CPROVER_old(g_badhex) || (*offset < end_offset)) ==> g_badhex', '!(__CPROVER_old(g_badhex) || (*offset < end_offset)) ==> !g_badhex']


# ---- JSONUtils::UnEscape -----------------------------------------------------------------------------
def unescape_safety_specs(c):
    """memory safety + termination + result shape, all lengths (C05/C07)"""
    q = "((%s)34)" % CHARS[c]
    return {
        fn_unescape(c): dict(
            buffers=[('content', 'length')], refs=['stream', 'terminated'], native_both=True,
            requires=['*terminated == 0', '!g_badhex'],
            ensures=['__CPROVER_return_value <= length',
                     '__CPROVER_return_value != 0 ==> (content[__CPROVER_return_value - 1] == %s || __CPROVER_return_value == length)' % q,
                     # the flag is raised exactly when the scan stopped on the closing quote
                     '*terminated == 0 || *terminated == 1',
                     '*terminated == 1 ==> (__CPROVER_return_value != 0 && content[__CPROVER_return_value - 1] == %s)' % q,
                     '(__CPROVER_return_value != 0 && __CPROVER_return_value < length) ==> *terminated == 1',
                     # a string is only accepted if every hex reader it started ran over its whole range (four hex digits after each \\u)
                     '__CPROVER_return_value != 0 ==> !g_badhex'],
            assigns=['*terminated', 'g_badhex'],
            loops={0: dict(invariant=['offset <= length', 'offset2 <= offset', '!g_badhex'], decreases='length - offset', assigns='offset, offset2, g_badhex')}),
        fn_write(c): dict(requires=['length == 0 || __CPROVER_r_ok(str, ((__CPROVER_size_t)length) * sizeof(*str))'], assigns=[], ensures=[], stub_body='  ;'),
        fn_append(c): dict(assigns=[], ensures=[], stub_body='  ;'),
        fn_notempty(c): nondet_bool_spec(),
        fn_hex2(c): dict(requires=['__CPROVER_r_ok(value, ((__CPROVER_size_t)length) * sizeof(*value))', 'length <= 4'], assigns=['g_badhex'],
                         ensures=['(__CPROVER_old(g_badhex) || !(%s)) ==> g_badhex' % hexall('value', 'length'), '!(__CPROVER_old(g_badhex) || !(%s)) ==> !g_badhex' % hexall('value', 'length')]),
        fn_hex3(c): dict(requires=['__CPROVER_r_ok(value, ((__CPROVER_size_t)end_offset) * sizeof(*value))', '__CPROVER_w_ok(offset, sizeof(*offset))', '*offset <= end_offset'],
                         ensures=['*offset >= __CPROVER_old(*offset)', '*offset <= end_offset'] + HEX_FLAG, assigns=['*offset', 'g_badhex'],
                         ghost_returns=['if (*offset < end_offset) g_badhex = 1']),
        fn_toutf(c): dict(assigns=[], ensures=[]),
    }


def hex_safety_specs(c):
    cons = ['(__CPROVER_old(*offset) == 0 && *offset > %d) ==> QX_ISHEX(value[%d])' % (k, k) for k in range(4)]
    return {
        fn_hex3(c): dict(buffers=[('value', 'end_offset')], refs=['offset'], ghost_returns=['if (*offset < end_offset) g_badhex = 1'], native_both=True,
                         ensures=['*offset >= __CPROVER_old(*offset)', '__CPROVER_old(*offset) <= end_offset ==> *offset <= end_offset',
                                  # it stops early only at a unit that is not a hex digit, and what it consumed (first four positions) are hex digits
                                  '*offset < end_offset ==> !QX_ISHEX(value[*offset])'] + cons +
                                 ['__CPROVER_old(*offset) <= end_offset ==> (%s)' % h for h in HEX_FLAG],
                         assigns=['*offset', 'g_badhex'],
                         loops={0: dict(invariant=['*offset >= __CPROVER_loop_entry(*offset)', '__CPROVER_loop_entry(*offset) <= end_offset ==> *offset <= end_offset'] +
                                                  ['(__CPROVER_loop_entry(*offset) == 0 && *offset > %d) ==> QX_ISHEX(value[%d])' % (k, k) for k in range(4)],
                                        decreases='end_offset - *offset', assigns='*offset, number')}),
    }


def hex2_safety_specs(c):
    cons = ['(*offset > %d) ==> QX_ISHEX(value[%d])' % (k, k) for k in range(4)]
    return {fn_hex2(c): dict(buffers=[('value', 'length')], requires=['length <= 4'],
                             ensures=['(__CPROVER_old(g_badhex) || !(%s)) ==> g_badhex' % hexall('value', 'length'), '!(__CPROVER_old(g_badhex) || !(%s)) ==> !g_badhex' % hexall('value', 'length')], assigns=['g_badhex']),
            fn_hex3(c): dict(requires=['__CPROVER_r_ok(value, ((__CPROVER_size_t)end_offset) * sizeof(*value))', '__CPROVER_w_ok(offset, sizeof(*offset))', '*offset == 0'],
                             ensures=['*offset >= __CPROVER_old(*offset)', '*offset <= end_offset', '*offset < end_offset ==> !QX_ISHEX(value[*offset])'] + cons + HEX_FLAG,
                             assigns=['*offset', 'g_badhex'])}


# ---- Digit::stringToNumber / parseExponent (memory safety, termination, cursor) --------------------------
FN_S2N = 'Digit_stringToNumber__char'
FN_PEXP = 'Digit_parseExponent__char'
FN_PNEG = 'Digit_powerOfNegativeTen__unsigned_long_long'
FN_PPOS = 'Digit_powerOfPositiveTen__unsigned_long_long'
FN_HEX64 = 'Digit_HexStringToNumber__unsigned_long_long_char_unsigned_int__const_char_p_unsigned_int_r_const_unsigned_int'


def pexp_spec():
    return dict(buffers=[('content', 'end_offset')], refs=['exponent', 'is_negative_exp', 'offset'],
                requires=['*offset <= end_offset'],
                ensures=['*offset <= end_offset', '*offset >= __CPROVER_old(*offset)', '__CPROVER_return_value == 0 || __CPROVER_return_value == 1'],
                assigns=['*exponent', '*is_negative_exp', '*offset'],
                loops={0: dict(invariant=['*offset <= end_offset', '*offset >= __CPROVER_loop_entry(*offset)'], decreases='end_offset - *offset',
                               assigns='*offset, sign_set, *is_negative_exp, *exponent'),
                       1: dict(invariant=['*offset <= end_offset', '*offset >= o_offset'], decreases='end_offset - *offset', assigns='*offset, *exponent')})


def pexp_callee():
    return dict(requires=['__CPROVER_r_ok(content, end_offset)', '*offset <= end_offset'],
                ensures=['*offset <= end_offset', '*offset >= __CPROVER_old(*offset)', '__CPROVER_return_value == 0 || __CPROVER_return_value == 1'],
                assigns=['*exponent', '*is_negative_exp', '*offset'])


def s2n_specs():
    W = '*offset, digit, number->Natural, dot_offset, is_real, has_dot'
    main = dict(buffers=[('content', 'end_offset')], refs=['number', 'offset'],
                ensures=['__CPROVER_old(*offset) <= end_offset ==> *offset <= end_offset', '*offset >= __CPROVER_old(*offset)', '__CPROVER_return_value <= 3'],
                assigns=['*offset', '__CPROVER_object_whole(number)'],
                loops={0: dict(invariant=['*offset <= end_offset', '*offset >= start_offset'], decreases='end_offset - *offset', assigns='*offset, digit'),
                       1: dict(invariant=['*offset <= end_offset', 'max_end_offset <= end_offset', '*offset >= __CPROVER_loop_entry(*offset)',
                                          '(*offset < end_offset) ==> (*offset < max_end_offset)'],
                               decreases='end_offset - *offset', assigns=W),
                       2: dict(invariant=['*offset <= max_end_offset', '*offset >= __CPROVER_loop_entry(*offset)',
                                          '(*offset > __CPROVER_loop_entry(*offset)) ==> (digit >= 48 && digit <= 57)'], decreases='max_end_offset - *offset',
                               assigns='*offset, digit, number->Natural'),
                       3: dict(invariant=['*offset <= end_offset', '*offset >= __CPROVER_loop_entry(*offset)', 'keep_going ==> *offset < end_offset', 'keep_going == 0 || keep_going == 1'],
                               decreases='((unsigned long long)(end_offset - *offset)) + (keep_going ? 1 : 0)',
                               assigns='*offset, digit, keep_going, dot_offset, has_dot, exp_offset, exponent, is_negative_exp')})
    cutp = dict(requires=['__CPROVER_w_ok(number, sizeof(*number))'], assigns=['*number'], ensures=[])
    hex64 = dict(requires=['__CPROVER_r_ok(value, end_offset)', '*offset <= end_offset'], ensures=['*offset <= end_offset', '*offset >= __CPROVER_old(*offset)'], assigns=['*offset'])
    return {FN_S2N: main, FN_PEXP: pexp_callee(), FN_PNEG: cutp, FN_PPOS: cutp, FN_HEX64: hex64}
