from lib_bigint import *

EXPLANATION = ('BigInt<Word,4 words> operations enforced against a bit-vector view val(b)=sum storage_[i]*2^(w*i): representation invariant wf '
               'is preserved and val changes by exactly the mathematical operation whenever the result fits; loops are bounded by the word count and '
               'unwound to that constant (width-complete for the instantiation).')
TRUSTED = ['Platform::FindFirstBit/FindLastBit use __builtin_ctz/clz, modelled by CBMC']
ASSUMPTIONS = ['operands satisfy "the mathematical result fits the declared width" as stated in the property']


def mk(w, name, fnq, fn, spec, clause, **kw):
    j = dict(name='BigInt<%d>.%s' % (w, name), unit=UNIT, fn=fn, roots=[fnq], specs={fn: spec}, pre=pre(w), solver='cadical',
             timeout=900, pre_unwind=6, must_have=['postcondition'], clause=clause, objbits=9,
             native_pre=native_pre(w), native_skip_ensures=(w > 16), cex_K=1)
    j.update(kw)
    return j


def jobs(tier):
    out = []
    widths = [8, 64] if tier == 'quick' else [8, 16, 32, 64]
    for w in widths:
        wt = WORDS[w][0]
        C, Q = cls(w), qcls(w)
        S = self_obj(w)
        shiftamt = '(((bv_t)number) << (index * QW))'
        out.append(mk(w, 'Add', Q + '::Add', C + '_Add',
                      dict(requires=[S, wf(), 'index <= 3', '%s + %s < LIMIT' % (val(), shiftamt)],
                           ensures=[wf(), '%s == %s + (((bv_t)number) << (index * QW))' % (val(), val(old=True))], assigns=frame()),
                      'add a word at a word position: exact sum, carry propagated, invariant kept'))
        out.append(mk(w, 'Subtract', Q + '::Subtract', C + '_Subtract',
                      dict(requires=[S, wf(), 'index <= 3', '%s >= %s' % (val(), shiftamt)],
                           ensures=[wf(), '%s == %s - (((bv_t)number) << (index * QW))' % (val(), val(old=True))], assigns=frame()),
                      'subtract a word at a word position: exact difference, borrow propagated, invariant kept'))
        out.append(mk(w, 'ShiftLeft', Q + '::ShiftLeft', C + '_ShiftLeft',
                      dict(requires=[S, wf(), 'offset < 4 * QW', '(%s << offset) < LIMIT' % val()],
                           ensures=[wf(), '%s == (%s << offset)' % (val(), val(old=True))], assigns=frame()),
                      'left shift by any bit count that fits: exact, in bounds also for zero'))
        out.append(mk(w, 'ShiftRight', Q + '::ShiftRight', C + '_ShiftRight',
                      dict(requires=[S, wf()],
                           ensures=[wf(), 'offset < 5 * QW ==> %s == (%s >> offset)' % (val(), val(old=True)), 'offset >= 4 * QW ==> %s == 0' % val()], assigns=frame()),
                      'right shift by any bit count: exact'))
    return out


def more_jobs(w):
    out = []
    wt = WORDS[w][0]
    wts = wt.replace(' ', '_')
    wd = WIDE[w]
    wds = wd.replace(' ', '_')
    C, Q = cls(w), qcls(w)
    S = self_obj(w)
    V, OV = val(), val(old=True)
    for T, Ts in ((wt, wts), (wd, wds)):
        tq = T
        out.append(mk(w, 'assign<%s>' % T, '%s::operator=<%s>' % (Q, tq), '%s_op_assign__%s__const_%s' % (C, Ts, Ts),
                      dict(requires=[S, wf()], ensures=[wf(), '%s == (bv_t)number' % V], assigns=frame()),
                      'assignment from an integer sets exactly that value'))
        out.append(mk(w, 'or<%s>' % T, '%s::operator|=<%s>' % (Q, tq), '%s_op_or_assign__%s' % (C, Ts),
                      dict(requires=[S, wf()], ensures=[wf(), '%s == (%s | (bv_t)number)' % (V, OV)], assigns=frame()),
                      'or with an integer is exact and keeps the invariant'))
        out.append(mk(w, 'and<%s>' % T, '%s::operator&=<%s>' % (Q, tq), '%s_op_and_assign__%s' % (C, Ts),
                      dict(requires=[S, wf()], ensures=[wf(), '%s == (%s & (bv_t)number)' % (V, OV)], assigns=frame()),
                      'and with an integer is exact and keeps the invariant'))
        out.append(mk(w, 'add<%s>' % T, '%s::operator+=<%s>' % (Q, tq), '%s_op_add_assign__%s' % (C, Ts),
                      dict(requires=[S, wf(), '%s + (bv_t)number < LIMIT' % V], ensures=[wf(), '%s == %s + (bv_t)number' % (V, OV)], assigns=frame()),
                      'addition of an integer (any width) is exact'))
        out.append(mk(w, 'sub<%s>' % T, '%s::operator-=<%s>' % (Q, tq), '%s_op_sub_assign__%s' % (C, Ts),
                      dict(requires=[S, wf(), '%s >= (bv_t)number' % V], ensures=[wf(), '%s == %s - (bv_t)number' % (V, OV)], assigns=frame()),
                      'subtraction of an integer (any width) is exact'))
        out.append(mk(w, 'narrow<%s>' % T, '%s::operator %s<%s>' % (Q, tq, tq), '%s_conv_%s__%s' % (C, Ts, Ts),
                      dict(requires=[S, wf()], ensures=['__CPROVER_return_value == (%s)%s' % (T, V)], assigns=[]),
                      'narrowing conversion returns the low bits of the value'))
    SS = '__CPROVER_is_fresh(src, sizeof(struct %s))' % C
    out.append(mk(w, 'copy-assign', '%s::operator=(const %s &)' % (Q, Q), '%s_op_assign__const_%s_r' % (C, C),
                  dict(requires=[S, SS, wf(), wf('src')], ensures=[wf(), '%s == %s' % (V, val('src')), '%s == %s' % (val('src'), val('src', old=True))], assigns=frame()),
                  'copy assignment makes the target equal to the source and leaves the source alone'))
    out.append(mk(w, 'move-assign', '%s::operator=(%s &&)' % (Q, Q), '%s_op_assign__%s_rr' % (C, C),
                  dict(requires=[S, SS, wf(), wf('src')], ensures=[wf(), wf('src'), '%s == %s' % (V, val('src', old=True)), '%s == 0' % val('src')], assigns=frame() + frame('src')),
                  'move assignment transfers the value and leaves a zero source'))
    out.append(mk(w, 'copy-construct', '%s::BigInt(const %s &)' % (Q, Q), '%s_ctor__const_%s_r' % (C, C),
                  dict(requires=[S, SS, wf('src')], ensures=[wf(), '%s == %s' % (V, val('src'))], assigns=frame()),
                  'copy construction yields an equal value'))
    out.append(mk(w, 'Clear', Q + '::Clear', C + '_Clear', dict(requires=[S, wf()], ensures=[wf(), '%s == 0' % V], assigns=frame()), 'Clear yields zero'))
    out.append(mk(w, 'FindFirstBit', Q + '::FindFirstBit', C + '_FindFirstBit',
                  dict(requires=[S, wf(), '%s != 0' % V], ensures=['__CPROVER_return_value < 4 * QW', '((%s >> __CPROVER_return_value) & 1) == 1' % V,
                                                                 '(%s & ((((bv_t)1) << __CPROVER_return_value) - 1)) == 0' % V], assigns=[]),
                  'index of the lowest set bit is exact'))
    out.append(mk(w, 'FindLastBit', Q + '::FindLastBit', C + '_FindLastBit',
                  dict(requires=[S, wf(), '%s != 0' % V], ensures=['__CPROVER_return_value < 4 * QW', '(%s >> __CPROVER_return_value) == 1' % V], assigns=[]),
                  'index of the highest set bit is exact'))
    B = '__CPROVER_is_fresh(out, sizeof(struct %s))' % C
    for op, nm in (('<', 'lt'), ('<=', 'le'), ('>', 'gt'), ('>=', 'ge'), ('==', 'eq'), ('!=', 'ne')):
        out.append(mk(w, 'cmp%s word' % op, 'Qentem::operator%s(const %s &, const %s)' % (op, Q, wt), 'op_%s__const_%s_r_const_%s' % (nm, C, wts),
                      dict(requires=[B, wf('out')], ensures=['__CPROVER_return_value == (%s %s (bv_t)number)' % (val('out'), op)], assigns=[]),
                      'comparison with a word agrees with the value'))
        out.append(mk(w, 'word cmp%s' % op, 'Qentem::operator%s(const %s, const %s &)' % (op, wt, Q), 'op_%s__const_%s_const_%s_r' % (nm, wts, C),
                      dict(requires=[B, wf('out')], ensures=['__CPROVER_return_value == ((bv_t)number %s %s)' % (op, val('out'))], assigns=[]),
                      'comparison of a word with a BigInt agrees with the value'))
    out.append(mk(w, 'IsZero', Q + '::IsZero', C + '_IsZero', dict(requires=[S, wf()], ensures=['__CPROVER_return_value == (%s == 0)' % V], assigns=[]), 'zero predicate agrees with the value'))
    out.append(mk(w, 'NotZero', Q + '::NotZero', C + '_NotZero', dict(requires=[S, wf()], ensures=['__CPROVER_return_value == (%s != 0)' % V], assigns=[]), 'non-zero predicate agrees with the value'))
    return out


_jobs1 = jobs


def jobs(tier):
    out = _jobs1(tier)
    widths = [8, 64] if tier == 'quick' else [8, 16, 32, 64]
    for w in widths:
        out += more_jobs(w)
    return out


def muldiv_jobs(w, tier):
    out = []
    wt = WORDS[w][0]
    C, Q = cls(w), qcls(w)
    S = self_obj(w)
    V, OV = val(), val(old=True)
    out.append(mk(w, 'Multiply', Q + '::Multiply', C + '_Multiply',
                  dict(requires=[S, wf(), '%s * (bv_t)multiplier < LIMIT' % V], ensures=[wf(), '%s == %s * (bv_t)multiplier' % (V, OV)], assigns=frame()),
                  'multiplication by a word is the exact product', timeout=1500))
    out.append(mk(w, 'Divide', Q + '::Divide', C + '_Divide',
                  dict(requires=[S, wf(), 'divisor != 0'], ensures=[wf(), '%s == %s / (bv_t)divisor' % (V, OV), '(bv_t)__CPROVER_return_value == %s %% (bv_t)divisor' % OV], assigns=frame()),
                  'division by a word gives the exact quotient and remainder', timeout=1500, search_only=True, canary=False,
                  bounded='time-bounded SAT search for a counterexample to the exact contract at 8-bit words (the proof does not finish in 1500 s)'))
    return out


_jobs2 = jobs


def jobs(tier):
    out = _jobs2(tier)
    if tier == "thorough":
        out += muldiv_jobs(8, tier)
    return out


# ---- double-word step functions (modular-relative treatment of multiply / divide, DESIGN section 5 C19) ----------------------
def step_jobs(tier):
    out = []
    TY = {8: ('unsigned char', 'unsigned_char'), 16: ('unsigned short', 'unsigned_short'), 32: ('unsigned int', 'unsigned_int'), 64: ('unsigned long long', 'unsigned_long_long')}
    # (word bits, variant): variant 64 is the hand-rolled half-word algorithm, whose text is width-generic and is enforced at reduced word sizes
    # reduced instances of the half-word text must use a word type that is not subject to integer promotion (unsigned int): with 8/16-bit
    # words `~Number_T{0} >> shift_` is evaluated in int and the mask comes out wrong, so those instances are not the 64-bit algorithm
    combos = [(8, 8), (32, 64)] if tier == 'quick' else [(8, 8), (16, 16), (32, 64)]
    for w, var in combos:
        wt, wts = TY[w]
        pre = 'typedef unsigned __CPROVER_bitvector[%d] dw_t;\n#define QW %d\n' % (2 * w + 2, w)
        npre = 'typedef unsigned __int128 dw_t;\n#define QW %d\n' % w
        fn = 'DoubleSize__%s_%d_Multiply' % (wts, var)
        q = 'Qentem::DoubleSize<%s, %d>::Multiply' % (wt, var)
        out.append(dict(name='DoubleSize<%d-bit,%s>.Multiply' % (w, 'native' if var != 64 else 'half-word'), unit=UNIT, fn=fn, roots=[q],
                        specs={fn: dict(refs=['number'], ensures=['((((dw_t)__CPROVER_return_value) << QW) | (dw_t)*number) == (dw_t)__CPROVER_old(*number) * (dw_t)multiplier'],
                                        assigns=['*number'])},
                        pre=pre, native_pre=npre, native_skip_ensures=(w > 32), solver='cadical', timeout=(900 if var != 64 else (100 if tier == 'quick' else 1800)), objbits=8,
                        must_have=['postcondition'] if var != 64 else [], cex_K=1, canary=(var != 64),
                        search_only=(var == 64), bounded=('time-bounded SAT search for a counterexample (the proof of the 32-bit instance does not finish)' if var == 64 else None),
                        properties=(['%s.postcondition.1' % fn] if var == 64 else []),
                        clause='double-word multiply step returns exactly (high, low) of the full product'))
        fn = 'DoubleSize__%s_%d_Divide' % (wts, var)
        q = 'Qentem::DoubleSize<%s, %d>::Divide' % (wt, var)
        shift_req = []
        params = 'initial_shift' if var == 64 else 'qx_unnamed0'
        if var == 64:
            # the caller passes (width-1) - index of the top set bit of the divisor
            shift_req = ['initial_shift < QW', '((divisor << initial_shift) >> (QW - 1)) == 1', '((dw_t)divisor << initial_shift) < (((dw_t)1) << QW)']
        N = '(((dw_t)__CPROVER_old(*dividend_high) << QW) | (dw_t)__CPROVER_old(*dividend_low))'
        out.append(dict(name='DoubleSize<%d-bit,%s>.Divide' % (w, 'native' if var != 64 else 'half-word'), unit=UNIT, fn=fn, roots=[q],
                        specs={fn: dict(refs=['dividend_high', 'dividend_low'], requires=['divisor != 0', '*dividend_high < divisor'] + shift_req,
                                        ensures=['*dividend_high < divisor', '(dw_t)*dividend_low * (dw_t)divisor + (dw_t)*dividend_high == %s' % N],
                                        assigns=['*dividend_high', '*dividend_low'])},
                        pre=pre, native_pre=npre, native_skip_ensures=(w > 32), solver='cadical', timeout=(900 if var != 64 else (100 if tier == 'quick' else 1800)), objbits=8,
                        must_have=['postcondition'] if var != 64 else [], cex_K=1, canary=(var != 64),
                        search_only=(var == 64 or w >= 16), bounded=('time-bounded SAT search for a counterexample (the proof of this instance does not finish)' if (var == 64 or w >= 16) else None),
                        properties=(['%s.postcondition.2' % fn] if var == 64 else []),
                        clause='double-word divide step returns the exact quotient word and remainder of (high:low) / divisor'))
    return out


_jobs3 = jobs


def jobs(tier):
    return _jobs3(tier) + step_jobs(tier)


# ---- BigInt::Multiply / Divide relative to the step contracts (step results recorded in ghost scalars by call order) -----------
def rel_jobs(w):
    out = []
    wt = WORDS[w][0]
    wts = wt.replace(' ', '_')
    C, Q = cls(w), qcls(w)
    S = self_obj(w)
    MUL = 'DoubleSize__%s_%d_Multiply' % (wts, w)
    DIV = 'DoubleSize__%s_%d_Divide' % (wts, w)
    QMUL = 'Qentem::DoubleSize<%s, %d>::Multiply' % (wt, w)
    ghosts = [('unsigned int', 'g_cnt')] + [(wt, 'g_hi%d' % c) for c in range(4)] + [(wt, 'g_lo%d' % c) for c in range(4)] + [(wt, 'g_in%d' % c) for c in range(4)] + \
             [(wt, 'g_out%d' % c) for c in range(4)]
    gnames = ['g_cnt'] + ['g_%s%d' % (k, c) for k in ('hi', 'lo', 'in', 'out') for c in range(4)]
    pre_ = pre(w) + 'typedef unsigned __CPROVER_bitvector[%d] dw_t;\n' % (2 * w + 2)
    rec = lambda g, val: ['(__CPROVER_old(g_cnt) == %d) ==> %s%d == %s' % (c, g, c, val) for c in range(4)] + \
                         ['(__CPROVER_old(g_cnt) != %d) ==> %s%d == __CPROVER_old(%s%d)' % (c, g, c, g, c) for c in range(4)]
    mul_callee = dict(requires=['__CPROVER_w_ok(number, sizeof(*number))', 'g_cnt < 4'], assigns=['*number'] + gnames,
                      ensures=['g_cnt == __CPROVER_old(g_cnt) + 1',
                               '((((dw_t)__CPROVER_return_value) << QW) | (dw_t)*number) == (dw_t)__CPROVER_old(*number) * (dw_t)multiplier'] +
                      rec('g_hi', '__CPROVER_return_value') + rec('g_lo', '*number') + rec('g_in', '__CPROVER_old(*number)') + rec('g_out', '__CPROVER_old(g_out%d)'.replace('%d', '0')))
    # g_out is unused by Multiply; keep it unchanged
    mul_callee['ensures'] = [e for e in mul_callee['ensures'] if 'g_out' not in e] + ['g_out%d == __CPROVER_old(g_out%d)' % (c, c) for c in range(4)]
    IDX = '__CPROVER_old(self->index_)'
    prod = lambda c: '((((bv_t)g_hi%d) << QW) | (bv_t)g_lo%d)' % (c, c)
    summ = ' + '.join('((%d <= %s) ? (%s << ((%s - %d) * QW)) : (bv_t)0)' % (c, IDX, prod(c), IDX, c) for c in range(4))
    fits = '(%s < 3 || g_hi0 == 0)' % IDX
    fn = C + '_Multiply'
    out.append(mk(w, 'Multiply.relative', Q + '::Multiply', fn,
                  dict(requires=[S, wf(), 'g_cnt == 0'],
                       ensures=['g_cnt == %s + 1' % IDX,
                                '((%s) < LIMIT) ==> (%s == (%s))' % (summ, val(), summ)] +
                               ['(%s == %d) ==> g_in%d == __CPROVER_old(self->storage_[%d])' % (IDX, i, c, i - c) for i in range(4) for c in range(i + 1)] +
                               ['((%s) < LIMIT) ==> %s' % (summ, wf())],
                       assigns=frame() + gnames),
                  'multiplication applies the double-word step to every word from the top down and adds each high word one position up (value = sum of recorded products)',
                  replace=[MUL], timeout=900, split=24, split_par=12, weight=12, ghosts=ghosts, pre=pre_))
    out[-1]['specs'][MUL] = mul_callee
    # ---- Divide: the step is applied from the word below the top down to word 0 with the remainder chained
    div_callee = dict(
        requires=['__CPROVER_w_ok(dividend_high, sizeof(*dividend_high))', '__CPROVER_w_ok(dividend_low, sizeof(*dividend_low))', 'g_cnt < 3',
                  'divisor != 0', '*dividend_high < divisor'] + (['initial_shift < QW', '((divisor << initial_shift) >> (QW - 1)) == 1'] if w == 64 else []),
        assigns=['*dividend_high', '*dividend_low'] + gnames,
        ensures=['g_cnt == __CPROVER_old(g_cnt) + 1', '*dividend_high < divisor',
                 # the arithmetic meaning of the step (q*d + r == (r_in:a)) is enforced against the real step function in the DoubleSize
                 # jobs; it is not needed for the plumbing proved here and is left out to keep multipliers out of this formula
                 ] +
        rec('g_hi', '__CPROVER_old(*dividend_high)') + rec('g_in', '__CPROVER_old(*dividend_low)') + rec('g_lo', '*dividend_low') + rec('g_out', '*dividend_high'))
    fnd = C + '_Divide'
    O = lambda k: '__CPROVER_old(self->storage_[%d])' % k
    above = ' && '.join('(self->index_ >= %d || self->storage_[%d] == 0)' % (i, i) for i in range(1, N))
    ens = ['__CPROVER_return_value < divisor', 'g_cnt == %s' % IDX, 'self->index_ <= %s && self->index_ + 1 >= %s' % (IDX, IDX), above]
    for i in range(4):
        ens.append('(%s == %d) ==> self->storage_[%d] == %s / divisor' % (IDX, i, i, O(i)))
        for c in range(i):
            k = i - 1 - c
            ens.append('(%s == %d) ==> (g_in%d == %s && self->storage_[%d] == g_lo%d && g_hi%d == %s)' % (
                IDX, i, c, O(k), k, c, c, ('%s %% divisor' % O(i)) if c == 0 else 'g_out%d' % (c - 1)))
        ens.append('(%s == %d) ==> __CPROVER_return_value == %s' % (IDX, i, ('%s %% divisor' % O(0)) if i == 0 else 'g_out%d' % (i - 1)))
    unfinished = []   # Divide.relative does not finish on the installed back ends (one obligation group exceeds 900 s); kept for the record, not run
    unfinished.append(mk(w, 'Divide.relative', Q + '::Divide', fnd,
                  dict(requires=[S, wf(), 'divisor != 0', 'g_cnt == 0'], ensures=ens, assigns=frame() + gnames),
                  'division applies the double-word step from the top down with the remainder chained; quotient words, returned remainder and invariant follow the step results',
                  replace=[DIV], timeout=900, split=24, split_par=12, weight=12, ghosts=ghosts, pre=pre_))
    unfinished[-1]['specs'][DIV] = div_callee
    return out


_jobs4 = jobs


def jobs(tier):
    out = _jobs4(tier)
    for w in ([64] if tier == 'quick' else [8, 16, 32, 64]):
        out += rel_jobs(w)
    return out
