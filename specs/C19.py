from lib_bigint import *

EXPLANATION = ('BigInt<Word,4 words> operations enforced against a bit-vector view val(b)=sum storage_[i]*2^(w*i): representation invariant wf '
               'is preserved and val changes by exactly the mathematical operation whenever the result fits; loops are bounded by the word count and '
               'unwound to that constant (width-complete for the instantiation).')
TRUSTED = ['Platform::FindFirstBit/FindLastBit use __builtin_ctz/clz, modelled by CBMC']
ASSUMPTIONS = ['operands satisfy "the mathematical result fits the declared width" as stated in the property']


def mk(w, name, fnq, fn, spec, clause, **kw):
    j = dict(name='BigInt<%d>.%s' % (w, name), unit=UNIT, fn=fn, roots=[fnq], specs={fn: spec}, pre=pre(w), solver='cadical',
             timeout=900, pre_unwind=6, must_have=['postcondition'], clause=clause, objbits=9,
             native_pre=native_pre(w), native_skip_ensures=(w > 16), cex_K=1)
    j.update(kw)
    return j


def jobs(tier):
    out = []
    widths = [8, 64] if tier == 'quick' else [8, 16, 32, 64]
    for w in widths:
        wt = WORDS[w][0]
        C, Q = cls(w), qcls(w)
        S = self_obj(w)
        shiftamt = '(((bv_t)number) << (index * QW))'
        out.append(mk(w, 'Add', Q + '::Add', C + '_Add',
                      dict(requires=[S, wf(), 'index <= 3', '%s + %s < LIMIT' % (val(), shiftamt)],
                           ensures=[wf(), '%s == %s + (((bv_t)number) << (index * QW))' % (val(), val(old=True))], assigns=frame()),
                      'add a word at a word position: exact sum, carry propagated, invariant kept'))
        out.append(mk(w, 'Subtract', Q + '::Subtract', C + '_Subtract',
                      dict(requires=[S, wf(), 'index <= 3', '%s >= %s' % (val(), shiftamt)],
                           ensures=[wf(), '%s == %s - (((bv_t)number) << (index * QW))' % (val(), val(old=True))], assigns=frame()),
                      'subtract a word at a word position: exact difference, borrow propagated, invariant kept'))
        out.append(mk(w, 'ShiftLeft', Q + '::ShiftLeft', C + '_ShiftLeft',
                      dict(requires=[S, wf(), 'offset < 4 * QW', '(%s << offset) < LIMIT' % val()],
                           ensures=[wf(), '%s == (%s << offset)' % (val(), val(old=True))], assigns=frame()),
                      'left shift by any bit count that fits: exact, in bounds also for zero'))
        out.append(mk(w, 'ShiftRight', Q + '::ShiftRight', C + '_ShiftRight',
                      dict(requires=[S, wf()],
                           ensures=[wf(), 'offset < 5 * QW ==> %s == (%s >> offset)' % (val(), val(old=True)), 'offset >= 4 * QW ==> %s == 0' % val()], assigns=frame()),
                      'right shift by any bit count: exact'))
    return out
