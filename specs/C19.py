from lib_bigint import *

EXPLANATION = ('BigInt<Word,4 words> operations enforced against a bit-vector view val(b)=sum storage_[i]*2^(w*i): representation invariant wf '
               'is preserved and val changes by exactly the mathematical operation whenever the result fits; loops are bounded by the word count and '
               'unwound to that constant (width-complete for the instantiation).')
TRUSTED = ['Platform::FindFirstBit/FindLastBit use __builtin_ctz/clz, modelled by CBMC']
ASSUMPTIONS = ['operands satisfy "the mathematical result fits the declared width" as stated in the property']


def mk(w, name, fnq, fn, spec, clause, **kw):
    j = dict(name='BigInt<%d>.%s' % (w, name), unit=UNIT, fn=fn, roots=[fnq], specs={fn: spec}, pre=pre(w), solver='cadical',
             timeout=900, pre_unwind=6, must_have=['postcondition'], clause=clause, objbits=9,
             native_pre=native_pre(w), native_skip_ensures=(w > 16), cex_K=1)
    j.update(kw)
    return j


def jobs(tier):
    out = []
    widths = [8, 64] if tier == 'quick' else [8, 16, 32, 64]
    for w in widths:
        wt = WORDS[w][0]
        C, Q = cls(w), qcls(w)
        S = self_obj(w)
        shiftamt = '(((bv_t)number) << (index * QW))'
        out.append(mk(w, 'Add', Q + '::Add', C + '_Add',
                      dict(requires=[S, wf(), 'index <= 3', '%s + %s < LIMIT' % (val(), shiftamt)],
                           ensures=[wf(), '%s == %s + (((bv_t)number) << (index * QW))' % (val(), val(old=True))], assigns=frame()),
                      'add a word at a word position: exact sum, carry propagated, invariant kept'))
        out.append(mk(w, 'Subtract', Q + '::Subtract', C + '_Subtract',
                      dict(requires=[S, wf(), 'index <= 3', '%s >= %s' % (val(), shiftamt)],
                           ensures=[wf(), '%s == %s - (((bv_t)number) << (index * QW))' % (val(), val(old=True))], assigns=frame()),
                      'subtract a word at a word position: exact difference, borrow propagated, invariant kept'))
        out.append(mk(w, 'ShiftLeft', Q + '::ShiftLeft', C + '_ShiftLeft',
                      dict(requires=[S, wf(), 'offset < 4 * QW', '(%s << offset) < LIMIT' % val()],
                           ensures=[wf(), '%s == (%s << offset)' % (val(), val(old=True))], assigns=frame()),
                      'left shift by any bit count that fits: exact, in bounds also for zero'))
        out.append(mk(w, 'ShiftRight', Q + '::ShiftRight', C + '_ShiftRight',
                      dict(requires=[S, wf()],
                           ensures=[wf(), 'offset < 5 * QW ==> %s == (%s >> offset)' % (val(), val(old=True)), 'offset >= 4 * QW ==> %s == 0' % val()], assigns=frame()),
                      'right shift by any bit count: exact'))
    return out


def more_jobs(w):
    out = []
    wt = WORDS[w][0]
    wts = wt.replace(' ', '_')
    wd = WIDE[w]
    wds = wd.replace(' ', '_')
    C, Q = cls(w), qcls(w)
    S = self_obj(w)
    V, OV = val(), val(old=True)
    for T, Ts in ((wt, wts), (wd, wds)):
        tq = T
        out.append(mk(w, 'assign<%s>' % T, '%s::operator=<%s>' % (Q, tq), '%s_op_assign__%s__const_%s' % (C, Ts, Ts),
                      dict(requires=[S, wf()], ensures=[wf(), '%s == (bv_t)number' % V], assigns=frame()),
                      'assignment from an integer sets exactly that value'))
        out.append(mk(w, 'or<%s>' % T, '%s::operator|=<%s>' % (Q, tq), '%s_op_or_assign__%s' % (C, Ts),
                      dict(requires=[S, wf()], ensures=[wf(), '%s == (%s | (bv_t)number)' % (V, OV)], assigns=frame()),
                      'or with an integer is exact and keeps the invariant'))
        out.append(mk(w, 'and<%s>' % T, '%s::operator&=<%s>' % (Q, tq), '%s_op_and_assign__%s' % (C, Ts),
                      dict(requires=[S, wf()], ensures=[wf(), '%s == (%s & (bv_t)number)' % (V, OV)], assigns=frame()),
                      'and with an integer is exact and keeps the invariant'))
        out.append(mk(w, 'add<%s>' % T, '%s::operator+=<%s>' % (Q, tq), '%s_op_add_assign__%s' % (C, Ts),
                      dict(requires=[S, wf(), '%s + (bv_t)number < LIMIT' % V], ensures=[wf(), '%s == %s + (bv_t)number' % (V, OV)], assigns=frame()),
                      'addition of an integer (any width) is exact'))
        out.append(mk(w, 'sub<%s>' % T, '%s::operator-=<%s>' % (Q, tq), '%s_op_sub_assign__%s' % (C, Ts),
                      dict(requires=[S, wf(), '%s >= (bv_t)number' % V], ensures=[wf(), '%s == %s - (bv_t)number' % (V, OV)], assigns=frame()),
                      'subtraction of an integer (any width) is exact'))
        out.append(mk(w, 'narrow<%s>' % T, '%s::operator %s<%s>' % (Q, tq, tq), '%s_conv_%s__%s' % (C, Ts, Ts),
                      dict(requires=[S, wf()], ensures=['__CPROVER_return_value == (%s)%s' % (T, V)], assigns=[]),
                      'narrowing conversion returns the low bits of the value'))
    SS = '__CPROVER_is_fresh(src, sizeof(struct %s))' % C
    out.append(mk(w, 'copy-assign', '%s::operator=(const %s &)' % (Q, Q), '%s_op_assign__const_%s_r' % (C, C),
                  dict(requires=[S, SS, wf(), wf('src')], ensures=[wf(), '%s == %s' % (V, val('src')), '%s == %s' % (val('src'), val('src', old=True))], assigns=frame()),
                  'copy assignment makes the target equal to the source and leaves the source alone'))
    out.append(mk(w, 'move-assign', '%s::operator=(%s &&)' % (Q, Q), '%s_op_assign__%s_rr' % (C, C),
                  dict(requires=[S, SS, wf(), wf('src')], ensures=[wf(), wf('src'), '%s == %s' % (V, val('src', old=True)), '%s == 0' % val('src')], assigns=frame() + frame('src')),
                  'move assignment transfers the value and leaves a zero source'))
    out.append(mk(w, 'copy-construct', '%s::BigInt(const %s &)' % (Q, Q), '%s_ctor__const_%s_r' % (C, C),
                  dict(requires=[S, SS, wf('src')], ensures=[wf(), '%s == %s' % (V, val('src'))], assigns=frame()),
                  'copy construction yields an equal value'))
    out.append(mk(w, 'Clear', Q + '::Clear', C + '_Clear', dict(requires=[S, wf()], ensures=[wf(), '%s == 0' % V], assigns=frame()), 'Clear yields zero'))
    out.append(mk(w, 'FindFirstBit', Q + '::FindFirstBit', C + '_FindFirstBit',
                  dict(requires=[S, wf(), '%s != 0' % V], ensures=['__CPROVER_return_value < 4 * QW', '((%s >> __CPROVER_return_value) & 1) == 1' % V,
                                                                 '(%s & ((((bv_t)1) << __CPROVER_return_value) - 1)) == 0' % V], assigns=[]),
                  'index of the lowest set bit is exact'))
    out.append(mk(w, 'FindLastBit', Q + '::FindLastBit', C + '_FindLastBit',
                  dict(requires=[S, wf(), '%s != 0' % V], ensures=['__CPROVER_return_value < 4 * QW', '(%s >> __CPROVER_return_value) == 1' % V], assigns=[]),
                  'index of the highest set bit is exact'))
    B = '__CPROVER_is_fresh(out, sizeof(struct %s))' % C
    for op, nm in (('<', 'lt'), ('<=', 'le'), ('>', 'gt'), ('>=', 'ge'), ('==', 'eq'), ('!=', 'ne')):
        out.append(mk(w, 'cmp%s word' % op, 'Qentem::operator%s(const %s &, const %s)' % (op, Q, wt), 'op_%s__const_%s_r_const_%s' % (nm, C, wts),
                      dict(requires=[B, wf('out')], ensures=['__CPROVER_return_value == (%s %s (bv_t)number)' % (val('out'), op)], assigns=[]),
                      'comparison with a word agrees with the value'))
        out.append(mk(w, 'word cmp%s' % op, 'Qentem::operator%s(const %s, const %s &)' % (op, wt, Q), 'op_%s__const_%s_const_%s_r' % (nm, wts, C),
                      dict(requires=[B, wf('out')], ensures=['__CPROVER_return_value == ((bv_t)number %s %s)' % (op, val('out'))], assigns=[]),
                      'comparison of a word with a BigInt agrees with the value'))
    out.append(mk(w, 'IsZero', Q + '::IsZero', C + '_IsZero', dict(requires=[S, wf()], ensures=['__CPROVER_return_value == (%s == 0)' % V], assigns=[]), 'zero predicate agrees with the value'))
    out.append(mk(w, 'NotZero', Q + '::NotZero', C + '_NotZero', dict(requires=[S, wf()], ensures=['__CPROVER_return_value == (%s != 0)' % V], assigns=[]), 'non-zero predicate agrees with the value'))
    return out


_jobs1 = jobs


def jobs(tier):
    out = _jobs1(tier)
    widths = [8, 64] if tier == 'quick' else [8, 16, 32, 64]
    for w in widths:
        out += more_jobs(w)
    return out


def muldiv_jobs(w, tier):
    out = []
    wt = WORDS[w][0]
    C, Q = cls(w), qcls(w)
    S = self_obj(w)
    V, OV = val(), val(old=True)
    out.append(mk(w, 'Multiply', Q + '::Multiply', C + '_Multiply',
                  dict(requires=[S, wf(), '%s * (bv_t)multiplier < LIMIT' % V], ensures=[wf(), '%s == %s * (bv_t)multiplier' % (V, OV)], assigns=frame()),
                  'multiplication by a word is the exact product', timeout=1500))
    out.append(mk(w, 'Divide', Q + '::Divide', C + '_Divide',
                  dict(requires=[S, wf(), 'divisor != 0'], ensures=[wf(), '%s == %s / (bv_t)divisor' % (V, OV), '(bv_t)__CPROVER_return_value == %s %% (bv_t)divisor' % OV], assigns=frame()),
                  'division by a word gives the exact quotient and remainder', timeout=1500))
    return out


_jobs2 = jobs


def jobs(tier):
    out = _jobs2(tier)
    if tier == "thorough":
        out += muldiv_jobs(8, tier)
    return out
