"""contracts for the recursive-descent JSON parser JSON::JSONParser<char, StringStream<char>> (C05 call sites, C07 all-or-nothing).

The four parser functions are mutually recursive; each is enforced against its own contract with the other three (and every
leaf they call) replaced by contract, so the recursion is handled modularly and without any depth bound.

Ghost state: g_bad becomes 1 as soon as an Undefined value is stored into an array or object (Array::operator+= and HArray::Insert
contracts).  "All-or-nothing" is then: a parse that returns anything but Undefined has left g_bad untouched, consumed its closer as
its last unit, and a failed parse pushes the cursor to `length`, which makes every enclosing container fail as well.
"""
UNIT = dict(driver='jsonparser.cpp')
P = 'JSON_JSONParser__char_StringStream__char_'
QP = 'Qentem::JSON::JSONParser<char, Qentem::StringStream<char>>::'
FN_PARSE, FN_OBJ, FN_ARR, FN_VAL = P + 'Parse', P + 'parseObject', P + 'parseArray', P + 'parseValue'
FN_CLOSED = P + 'isClosedString'
FN_TRIM = 'StringUtils_TrimLeft__char_unsigned_int'
FN_UNESC = 'JSONUtils_UnEscape__char_StringStream__char'
FN_S2N = 'Digit_StringToNumber__char__QNumber64_r_const_char_p_unsigned_int_r_unsigned_int'
FN_SS_NOTEMPTY, FN_SS_FIRST, FN_SS_LEN, FN_SS_CLEAR = ('StringStream__char_IsNotEmpty', 'StringStream__char_First', 'StringStream__char_Length',
                                                       'StringStream__char_Clear')
FN_STR_CTOR = 'String__char_ctor__const_char_p_unsigned_int'
FN_V_TYPE, FN_V_VOID, FN_V_MOVE, FN_V_STR = ('Value__char_ctor__ValueType', 'Value__char_ctor__void', 'Value__char_ctor__Value__char_rr',
                                             'Value__char_ctor__String__char_rr')
FN_V_U64, FN_V_I64, FN_V_DBL = 'Value__char_ctor__unsigned_long_long', 'Value__char_ctor__long_long', 'Value__char_ctor__double'
FN_V_RESET, FN_V_GETARR, FN_V_GETOBJ = 'Value__char_Reset', 'Value__char_GetArray__void', 'Value__char_GetObject__void'
FN_ARR_ADD = 'Array__Value__char_op_add_assign__Value__char_rr'
FN_OBJ_INS = 'HArray__String__char_Value__char_Insert__String__char_rr_Value__char_rr'
FN_MOVE_STR = 'Memory_Move__String__char'

# object code that stays behind contracts: containers, strings, the stream, the number reader, the un-escaper
CUT_QUAL = ['Qentem::String<char>::', 'Qentem::Array<', 'Qentem::HArray<', 'Qentem::HashTable<', 'Qentem::StringStream<char>::',
            'Qentem::Digit::', 'Qentem::JSONUtils::UnEscape']

# g_bad: an Undefined value was stored into a container; g_vend: cursor at the end of the most recent parseValue;
# g_j: an arbitrary position (universal quantifier on the conclusion side)
GHOSTS = [('unsigned char', 'g_bad'), ('unsigned int', 'g_vend'), ('unsigned int', 'g_j')]
PRE = '#define QX_WS(c) ((c) == 32 || (c) == 10 || (c) == 9 || (c) == 13)\n'


def _enum(name):
    import run as R
    from lower import Lowerer
    ast = R.get_ast('/tmp', UNIT['driver'])
    en = ast.enums.get('Qentem::' + name)
    out, val = {}, -1
    lw = Lowerer(ast)
    for c in en.get('inner', []):
        if c.get('kind') == 'EnumConstantDecl':
            val = lw.const_eval(c['inner'][0]) if c.get('inner') else val + 1
            out[c['name']] = val
    return out


VT = _enum('ValueType')
UNDEF, OBJ, ARR, STR = VT['Undefined'], VT['Object'], VT['Array'], VT['String']
KINDS = [VT[k] for k in ('Undefined', 'Object', 'Array', 'String', 'UIntLong', 'IntLong', 'Double', 'True', 'False', 'Null')]
RET = '__CPROVER_return_value'
RT = RET + '.type_'


def kind_in(expr, kinds):
    return '(' + ' || '.join('%s == %d' % (expr, k) for k in kinds) + ')'


# ------------------------------------------------------------------------------------------------ parser functions
def parser_core(kinds, entry_req):
    """clauses shared by parseValue / parseArray / parseObject; kinds = value kinds the function may return"""
    ens = ['*offset <= length',
           '*offset >= __CPROVER_old(*offset)',
           kind_in(RT, kinds),
           # failure is absorbing: the cursor jumps to the end, so that every enclosing container fails too
           '%s == %d ==> *offset == length' % (RT, UNDEF),
           # an accepted value never stored an Undefined member anywhere below it
           '%s != %d ==> g_bad == __CPROVER_old(g_bad)' % (RT, UNDEF)]
    if ARR in kinds:
        ens.append('%s == %d ==> (*offset >= 1 && content[*offset - 1] == 93)' % (RT, ARR))     # ']'
    if OBJ in kinds:
        ens.append('%s == %d ==> (*offset >= 1 && content[*offset - 1] == 125)' % (RT, OBJ))    # '}'
    if STR in kinds:
        ens.append('%s == %d ==> (*offset >= 1 && content[*offset - 1] == 34)' % (RT, STR))     # '"'
    return dict(requires=list(entry_req), ensures=ens, assigns=['*offset', 'g_bad', 'g_vend', '__CPROVER_object_whole(stream)'])


def enforced(core, loops=None):
    s = dict(core)
    s['buffers'] = [('content', 'length')]
    s['refs'] = ['stream', 'offset']
    s['ret_fields'] = ['type_']
    s['native_both'] = True     # postconditions mention ghosts: the native replay also runs the lowered copy, which carries the ghost code
    s['harness_setup'] = ['o_stream.storage_ = 0; o_stream.length_ = 0; o_stream.capacity_ = 0;']
    if loops is not None:
        s['loops'] = loops
    return s


def cex_stub(kinds):
    """contract stub used only by the bounded counterexample search for calls back into the recursive group"""
    t = '  struct Value__char v; __builtin_memset(&v, 0, sizeof(v)); unsigned char k; unsigned int o;\n'
    t += '  __CPROVER_assume(%s);\n' % kind_in('k', kinds)
    t += '  __CPROVER_assume(o >= *offset && o <= length);\n'
    t += '  __CPROVER_assume(k != %d || o == length);\n' % UNDEF
    for kk, ch in ((ARR, 93), (OBJ, 125), (STR, 34)):
        if kk in kinds:
            t += '  __CPROVER_assume(k != %d || (o >= 1 && content[o - 1] == %d));\n' % (kk, ch)
    t += '  *offset = o; g_vend = o; v.type_ = k; return v;'
    return t


def callee(core, kinds=None):
    s = dict(core)
    if kinds is not None:
        s['cex_stub'] = cex_stub(kinds)
    s['requires'] = ['length == 0 || __CPROVER_r_ok(content, length)', '__CPROVER_w_ok(offset, sizeof(*offset))',
                     '__CPROVER_w_ok(stream, sizeof(*stream))'] + list(core['requires'])
    return s


# every call site has a non-empty input (Parse returns early on length 0) and a cursor that is at most at the end
CORE_VAL = parser_core(KINDS, ['length >= 1', '*offset <= length'])
CORE_VAL['ensures'] = CORE_VAL['ensures'] + ['g_vend == *offset']
CORE_VAL['assigns'] = CORE_VAL['assigns'] + ['g_vend']
CORE_VAL['ghost_returns'] = ['g_vend = *offset']
CORE_ARR = parser_core([UNDEF, ARR], ['length >= 1', '*offset <= length'])
CORE_OBJ = parser_core([UNDEF, OBJ], ['length >= 1', '*offset <= length'])

KW = 'g_JSONotationStrings__char_1_%sString'


def kw_loop(var, which, n):
    """while ((offset < length) && (content[offset] == *kw)) over the keyword literal `which` of n letters"""
    return dict(invariant=['__CPROVER_same_object(%s, %s)' % (var, KW % which),
                           '__CPROVER_POINTER_OFFSET(%s) >= 1' % var, '__CPROVER_POINTER_OFFSET(%s) <= %d' % (var, n),
                           '*offset <= length', '*offset >= __CPROVER_loop_entry(*offset)'],
                decreases='length - *offset', assigns='*offset, %s' % var)


LOOPS_VAL = {0: kw_loop('true_string', 'True', 4), 1: kw_loop('false_string', 'False', 5), 2: kw_loop('null_string', 'Null', 4)}
LOOPS_ARR = {0: dict(invariant=['*offset <= length', '*offset >= __CPROVER_loop_entry(*offset)', 'g_bad == __CPROVER_loop_entry(g_bad)',
                                'value.type_ == %d' % ARR, 'arr == &value.array_'],
                     decreases='length - *offset', assigns='*offset, g_bad, g_vend, __CPROVER_object_whole(stream), value.array_, qx_tmp1')}
LOOPS_OBJ = {0: dict(invariant=['*offset <= length', '*offset >= __CPROVER_loop_entry(*offset)', 'g_bad == __CPROVER_loop_entry(g_bad)',
                                'value.type_ == %d' % OBJ, 'obj == &value.object_'],
                     decreases='length - *offset', assigns='*offset, g_bad, g_vend, __CPROVER_object_whole(stream), value.object_, qx_tmp1')}

PARSE_SPEC = dict(
    buffers=[('content', 'length')], refs=['stream'], ret_fields=['type_'], native_both=True, loops={},   # Parse has no loop of its own
    harness_setup=['o_stream.storage_ = 0; o_stream.length_ = 0; o_stream.capacity_ = 0;'],
    requires=['g_bad == 0'],
    ensures=[kind_in(RT, KINDS),
             '%s != %d ==> g_bad == 0' % (RT, UNDEF),
             # whatever follows the value, up to the end of the input, is white space
             '(%s != %d && g_vend <= g_j && g_j < length) ==> QX_WS(content[g_j])' % (RT, UNDEF)],
    assigns=['g_bad', 'g_vend', '__CPROVER_object_whole(stream)'])


# ------------------------------------------------------------------------------------------------ leaves behind contracts
def trim_spec(enforce=False):
    s = dict(ensures=['*offset >= __CPROVER_old(*offset)',
                      '__CPROVER_old(*offset) <= end_offset ==> *offset <= end_offset',
                      '__CPROVER_old(*offset) >= end_offset ==> *offset == __CPROVER_old(*offset)',
                      '(__CPROVER_old(*offset) <= g_j && g_j < *offset) ==> QX_WS(str[g_j])',
                      '*offset < end_offset ==> !QX_WS(str[*offset])'],
             assigns=['*offset'])
    if enforce:
        s['buffers'] = [('str', 'end_offset')]
        s['refs'] = ['offset']
        s['loops'] = {0: dict(invariant=['*offset >= __CPROVER_loop_entry(*offset)', '__CPROVER_loop_entry(*offset) <= end_offset ==> *offset <= end_offset',
                                         '__CPROVER_loop_entry(*offset) >= end_offset ==> *offset == __CPROVER_loop_entry(*offset)',
                                         '(__CPROVER_loop_entry(*offset) <= g_j && g_j < *offset) ==> QX_WS(str[g_j])'],
                              decreases='end_offset - *offset', assigns='*offset')}
    else:
        s['requires'] = ['end_offset == 0 || __CPROVER_r_ok(str, end_offset)', '__CPROVER_w_ok(offset, sizeof(*offset))']
        s['stub_body'] = '  while (*offset < end_offset && (str[*offset] == 32 || str[*offset] == 10 || str[*offset] == 9 || str[*offset] == 13)) ++*offset;'
    return s


def unescape_callee():
    """the contract enforced on JSONUtils::UnEscape under C05 (same template text), seen from the call sites; the terminated flag is optional"""
    return dict(requires=['length == 0 || __CPROVER_r_ok(content, length)', '__CPROVER_w_ok(stream, sizeof(*stream))',
                          'terminated == 0 || (__CPROVER_w_ok(terminated, sizeof(*terminated)) && *terminated == 0)'],
                ensures=[RET + ' <= length', '(%s != 0 && %s < length) ==> content[%s - 1] == 34' % (RET, RET, RET),
                         'terminated != 0 ==> (*terminated == 0 || *terminated == 1)',
                         '(terminated != 0 && *terminated == 1) ==> (%s != 0 && content[%s - 1] == 34)' % (RET, RET)],
                assigns=['__CPROVER_object_whole(stream)', 'terminated != 0: *terminated'],
                stub_body='  unsigned int i = 0; while (i < length) { char c = content[i]; ++i; if (c == 34) { if (terminated) *terminated = 1; return i; } '
                          'if (c == 92) { if (i == length) return 0; ++i; stream->length_ = 1; } if (c == 10) return 0; } return i;')


def s2n_callee():
    return dict(requires=['end_offset == 0 || __CPROVER_r_ok(content, end_offset)', '__CPROVER_w_ok(offset, sizeof(*offset))', '__CPROVER_w_ok(number, sizeof(*number))',
                          '*offset <= end_offset'],
                ensures=['*offset <= end_offset', '*offset >= __CPROVER_old(*offset)', RET + ' <= 3'],
                assigns=['*offset', '*number'],
                stub_body='  unsigned int s = *offset; while (*offset < end_offset && content[*offset] >= 48 && content[*offset] <= 57) ++*offset; number->Natural = 0; return (*offset > s) ? 2 : 0;')


def stream_specs():
    """StringStream<char> observers under its representation invariant (storage_ holds length_ readable units; enforced in C14)"""
    return {
        FN_SS_NOTEMPTY: dict(requires=['__CPROVER_r_ok(self, sizeof(*self))'], assigns=[], ensures=[RET + ' == (self->length_ != 0)'],
                             stub_body='  return self->length_ != 0;'),
        FN_SS_LEN: dict(requires=['__CPROVER_r_ok(self, sizeof(*self))'], assigns=[], ensures=[RET + ' == self->length_'], stub_body='  return self->length_;'),
        FN_SS_FIRST: dict(requires=['__CPROVER_r_ok(self, sizeof(*self))'], assigns=[], ensures=['__CPROVER_is_fresh(%s, self->length_)' % RET],
                          stub_body='  return malloc(self->length_);'),
        FN_SS_CLEAR: dict(requires=['__CPROVER_w_ok(self, sizeof(*self))'], assigns=['self->length_'], ensures=['self->length_ == 0'], stub_body='  self->length_ = 0;'),
    }


def value_specs(enforce=None):
    """contracts of the Value<char> members the parser uses; `enforce` names the one being enforced on its real body"""
    def obj(fn, extra_req=()):
        return ['__CPROVER_is_fresh(self, sizeof(*self))'] if enforce == fn else ['__CPROVER_w_ok(self, sizeof(*self))']
    sp = {
        FN_V_TYPE: dict(requires=obj(FN_V_TYPE), assigns=['*self'], ensures=['self->type_ == type', 'self->array_.storage_ == 0'],
                        stub_body='  self->array_.storage_ = 0; self->array_.index_ = 0; self->array_.capacity_ = 0; self->type_ = type;'),
        FN_V_VOID: dict(requires=obj(FN_V_VOID), assigns=['*self'], ensures=['self->type_ == %d' % UNDEF], stub_body='  self->type_ = %d;' % UNDEF),
        FN_V_U64: dict(requires=obj(FN_V_U64), assigns=['*self'], ensures=['self->type_ == %d' % VT['UIntLong']], stub_body='  self->number_.Natural = num; self->type_ = %d;' % VT['UIntLong']),
        FN_V_I64: dict(requires=obj(FN_V_I64), assigns=['*self'], ensures=['self->type_ == %d' % VT['IntLong']], stub_body='  self->number_.Integer = num; self->type_ = %d;' % VT['IntLong']),
        FN_V_DBL: dict(requires=obj(FN_V_DBL), assigns=['*self'], ensures=['self->type_ == %d' % VT['Double']], stub_body='  self->number_.Real = num; self->type_ = %d;' % VT['Double']),
        FN_V_RESET: dict(requires=obj(FN_V_RESET), assigns=['*self'], ensures=['self->type_ == %d' % UNDEF], stub_body='  self->type_ = %d;' % UNDEF),
        FN_V_GETARR: dict(requires=['__CPROVER_r_ok(self, sizeof(*self))'] if enforce != FN_V_GETARR else ['__CPROVER_is_fresh(self, sizeof(*self))'], assigns=[],
                          ensures=['self->type_ == %d ==> %s == &self->array_' % (ARR, RET), 'self->type_ != %d ==> %s == 0' % (ARR, RET)],
                          stub_body='  return self->type_ == %d ? &self->array_ : 0;' % ARR),
        FN_V_GETOBJ: dict(requires=['__CPROVER_r_ok(self, sizeof(*self))'] if enforce != FN_V_GETOBJ else ['__CPROVER_is_fresh(self, sizeof(*self))'], assigns=[],
                          ensures=['self->type_ == %d ==> %s == &self->object_' % (OBJ, RET), 'self->type_ != %d ==> %s == 0' % (OBJ, RET)],
                          stub_body='  return self->type_ == %d ? &self->object_ : 0;' % OBJ),
    }
    mv_req = ['__CPROVER_is_fresh(self, sizeof(*self))', '__CPROVER_is_fresh(val, sizeof(*val))'] if enforce == FN_V_MOVE else \
             ['__CPROVER_w_ok(self, sizeof(*self))', '__CPROVER_w_ok(val, sizeof(*val))']
    sp[FN_V_MOVE] = dict(requires=mv_req + [kind_in('val->type_', sorted(VT.values()))], assigns=['*self', '*val'],
                         ensures=['self->type_ == __CPROVER_old(val->type_)', 'val->type_ == %d' % UNDEF],
                         stub_body='  *self = *val; val->type_ = %d;' % UNDEF)
    st_req = ['__CPROVER_is_fresh(self, sizeof(*self))', '__CPROVER_is_fresh(str, sizeof(*str))'] if enforce == FN_V_STR else \
             ['__CPROVER_w_ok(self, sizeof(*self))', '__CPROVER_w_ok(str, sizeof(*str))']
    sp[FN_V_STR] = dict(requires=st_req, assigns=['*self', '*str'], ensures=['self->type_ == %d' % STR],
                        stub_body='  self->string_ = *str; self->type_ = %d;' % STR)
    return sp


def container_specs():
    """assumed contracts of the owning containers (object code, not under contract here): an append / insert stores the value and
    records in g_bad whether it was Undefined"""
    return {
        FN_ARR_ADD: dict(requires=['__CPROVER_w_ok(self, sizeof(*self))', '__CPROVER_w_ok(item, sizeof(*item))'],
                         assigns=['*self', '*item', 'g_bad'],
                         ensures=['__CPROVER_old(item->type_) == %d ==> g_bad == 1' % UNDEF, '__CPROVER_old(item->type_) != %d ==> g_bad == __CPROVER_old(g_bad)' % UNDEF],
                         stub_body='  if (item->type_ == %d) g_bad = 1;' % UNDEF),
        FN_OBJ_INS: dict(requires=['__CPROVER_w_ok(self, sizeof(*self))', '__CPROVER_w_ok(key, sizeof(*key))', '__CPROVER_w_ok(value, sizeof(*value))'],
                         assigns=['*self', '*key', '*value', 'g_bad'],
                         ensures=['__CPROVER_old(value->type_) == %d ==> g_bad == 1' % UNDEF, '__CPROVER_old(value->type_) != %d ==> g_bad == __CPROVER_old(g_bad)' % UNDEF],
                         stub_body='  if (value->type_ == %d) g_bad = 1;' % UNDEF),
        FN_STR_CTOR: dict(requires=['__CPROVER_w_ok(self, sizeof(*self))', 'len == 0 || __CPROVER_r_ok(str, len)'], assigns=['*self'],
                          ensures=['self->length_ == len'],
                          stub_body='  if (len != 0) { char qx_probe = str[len - 1]; (void)qx_probe; } self->storage_ = 0; self->length_ = len;'),
    }


def cex_stubs():
    """bodies used only by the bounded counterexample search (never by a proof): cut container members reached through the real
    bodies of Value's constructors and Reset"""
    mv = '  *self = *src; __builtin_memset(src, 0, sizeof(*src));'
    return {
        'String__char_ctor__String__char_rr': dict(stub_body=mv),
        'String__char_op_assign__String__char_rr': dict(stub_body=mv + ' return self;'),
        'Array__Value__char_op_assign__Array__Value__char_rr': dict(stub_body=mv + ' return self;'),
        'HashTable__String__char_HAItem_T__String__char_Value__char_Reset': dict(stub_body='  __builtin_memset(self, 0, sizeof(*self));'),
        'HashTable__String__char_HAItem_T__String__char_Value__char_op_assign__HashTable__String__char_HAItem_T__String__char_Value__char_rr': dict(stub_body=mv + ' return self;'),
        'Array__Value__char_Reset': dict(stub_body='  __builtin_memset(self, 0, sizeof(*self));'),
        'String__char_Reset': dict(stub_body='  __builtin_memset(self, 0, sizeof(*self));'),
    }


def all_specs(enforce_fn, enforce_spec):
    sp = {}
    sp.update(cex_stubs())
    sp.update(stream_specs())
    sp.update(value_specs())
    sp.update(container_specs())
    sp[FN_TRIM] = trim_spec()
    sp[FN_UNESC] = unescape_callee()
    sp[FN_S2N] = s2n_callee()
    sp[FN_VAL] = callee(CORE_VAL, KINDS)
    sp[FN_ARR] = callee(CORE_ARR, [UNDEF, ARR])
    sp[FN_OBJ] = callee(CORE_OBJ, [UNDEF, OBJ])
    if 'cex_stub' in sp.get(enforce_fn, {}):
        enforce_spec = dict(enforce_spec, cex_stub=sp[enforce_fn]['cex_stub'])
    sp[enforce_fn] = enforce_spec
    return sp


LEAVES = [FN_TRIM, FN_UNESC, FN_S2N, FN_SS_NOTEMPTY, FN_SS_FIRST, FN_SS_LEN, FN_SS_CLEAR, FN_STR_CTOR, FN_V_TYPE, FN_V_VOID, FN_V_MOVE, FN_V_STR,
          FN_V_U64, FN_V_I64, FN_V_DBL, FN_V_RESET, FN_V_GETARR, FN_V_GETOBJ, FN_ARR_ADD, FN_OBJ_INS]

MUST = ['postcondition', 'precondition', 'pointer_dereference', 'loop_invariant_step', 'loop_decreases']


SCOPES = {
    # C05: everything that states memory safety, termination and the cursor bound; not the all-or-nothing clauses (ensures 4.. of the parse functions)
    'C05': (r'^(?!.*_parse(Value|Array|Object)\.postcondition\.([4-9]|\d\d+)$)(?!.*_Parse\.postcondition\.([2-9]|\d\d+)$).*$', 'the all-or-nothing clauses are decided under C07'),
    # C07: the contract obligations (pre- and postconditions along the recursion); pointer/bounds obligations are C05's
    'C07': (r'(postcondition|precondition)\.\d+$', 'memory-safety obligations of the parser are decided under C05'),
}


def parser_jobs(pid):
    out = []
    for (nm, fn, core, loops, others, clause) in (
            ('parseValue', FN_VAL, CORE_VAL, LOOPS_VAL, [FN_ARR, FN_OBJ],
             'value dispatcher: reads only inside [content, content+length) and the keyword literals, keyword loops terminate; a failed value leaves the cursor at length'),
            ('parseArray', FN_ARR, CORE_ARR, LOOPS_ARR, [FN_VAL],
             'array parser: in bounds, terminates; an accepted array consumed its "]" last and stored no Undefined member; a failed array is Reset and leaves the cursor at length'),
            ('parseObject', FN_OBJ, CORE_OBJ, LOOPS_OBJ, [FN_VAL],
             'object parser: in bounds (keys are un-escaped inside the buffer), terminates; an accepted object consumed its "}" last and stored no Undefined member; a failed object is Reset')):
        out.append(dict(name='JSONParser.%s' % nm, unit=UNIT, fn=fn, roots=[QP + nm], cut_qual=CUT_QUAL,
                        specs=all_specs(fn, enforced(core, loops)), replace=LEAVES + others, ghosts=GHOSTS, pre=PRE,
                        solver='cadical', timeout=900, objbits=10, must_have=MUST, clause=clause, cex_K=6, cex_unwind=8, cex_recursive=[FN_VAL, FN_ARR, FN_OBJ], scope_re=SCOPES[pid][0], scope_note=SCOPES[pid][1]))
    out.append(dict(name='JSONParser.Parse', unit=UNIT, fn=FN_PARSE, roots=[QP + 'Parse'], cut_qual=CUT_QUAL,
                    specs=all_specs(FN_PARSE, PARSE_SPEC), replace=LEAVES + [FN_VAL], ghosts=GHOSTS, pre=PRE,
                    solver='cadical', timeout=600, objbits=10, must_have=['postcondition', 'precondition'], cex_K=6, cex_unwind=9, cex_recursive=[FN_VAL, FN_ARR, FN_OBJ], scope_re=SCOPES[pid][0], scope_note=SCOPES[pid][1],
                    clause='Parse returns a value only when no Undefined member was stored anywhere in the tree and the whole input was consumed; otherwise Undefined'))
    return out


def owned_member_specs():
    """frame-only contracts of the owning members that Value's Reset / move constructor / Value(String&&) call (object code, assumed)"""
    mv = dict(requires=['__CPROVER_w_ok(self, sizeof(*self))', '__CPROVER_w_ok(src, sizeof(*src))'], assigns=['*self', '*src'], ensures=[])
    mvr = dict(mv, ensures=['__CPROVER_return_value == self'])
    rs = dict(requires=['__CPROVER_w_ok(self, sizeof(*self))'], assigns=['*self'], ensures=[])
    return {'String__char_ctor__String__char_rr': dict(mv, stub_body=cex_stubs()['String__char_ctor__String__char_rr']['stub_body']),
            'String__char_op_assign__String__char_rr': dict(mvr, stub_body=cex_stubs()['String__char_op_assign__String__char_rr']['stub_body']),
            'Array__Value__char_op_assign__Array__Value__char_rr': dict(mvr, stub_body=cex_stubs()['Array__Value__char_op_assign__Array__Value__char_rr']['stub_body']),
            'HashTable__String__char_HAItem_T__String__char_Value__char_Reset': dict(rs, stub_body='  __builtin_memset(self, 0, sizeof(*self));'),
            'HashTable__String__char_HAItem_T__String__char_Value__char_op_assign__HashTable__String__char_HAItem_T__String__char_Value__char_rr':
                dict(mvr, stub_body='  *self = *src; __builtin_memset(src, 0, sizeof(*src)); return self;'),
            'Array__Value__char_Reset': dict(rs, stub_body='  __builtin_memset(self, 0, sizeof(*self));'),
            'String__char_Reset': dict(rs, stub_body='  __builtin_memset(self, 0, sizeof(*self));')}


def leaf_jobs():
    """the Value<char> members and TrimLeft the parser proofs rely on, enforced on their real bodies"""
    out = [dict(name='TrimLeft<char>', unit=UNIT, fn=FN_TRIM, roots=['Qentem::StringUtils::TrimLeft<char, unsigned int>'], specs={FN_TRIM: trim_spec(True)}, ghosts=GHOSTS, pre=PRE,
                solver='cadical', timeout=300, must_have=['postcondition', 'loop_invariant_step', 'loop_decreases', 'pointer_dereference'],
                clause='white-space skipper stays inside the buffer, terminates, never moves the cursor past end_offset')]
    for nm, fn, q in (('Value(ValueType)', FN_V_TYPE, 'Qentem::Value<char>::Value(Qentem::ValueType)'),
                      ('Value()', FN_V_VOID, 'Qentem::Value<char>::Value()'),
                      ('Value(unsigned long long)', FN_V_U64, 'Qentem::Value<char>::Value(unsigned long long)'),
                      ('Value(long long)', FN_V_I64, 'Qentem::Value<char>::Value(long long)'),
                      ('Value(double)', FN_V_DBL, 'Qentem::Value<char>::Value(double)'),
                      ('GetArray', FN_V_GETARR, 'Qentem::Value<char>::GetArray'),
                      ('GetObject', FN_V_GETOBJ, 'Qentem::Value<char>::GetObject')):
        out.append(dict(name='Value<char>.%s.kind' % nm, unit=UNIT, fn=fn, roots=[q], cut_qual=CUT_QUAL, specs={fn: value_specs(enforce=fn)[fn]},
                        solver='cadical', timeout=300, must_have=['postcondition'],
                        clause='the value kind recorded by %s is the one the parser contracts rely on' % nm))
    om = owned_member_specs()
    for nm, fn, q in (('Reset', FN_V_RESET, 'Qentem::Value<char>::Reset'),
                      ('Value(Value&&)', FN_V_MOVE, 'Qentem::Value<char>::Value(Qentem::Value<char> &&)'),
                      ('Value(String&&)', FN_V_STR, 'Qentem::Value<char>::Value(Qentem::String<char> &&)')):
        sp = dict(om)
        sp[fn] = value_specs(enforce=fn)[fn]
        out.append(dict(name='Value<char>.%s.kind' % nm, unit=UNIT, fn=fn, roots=[q], cut_qual=CUT_QUAL, specs=sp, replace=list(om), prune_specs=True,
                        solver='cadical', timeout=300, must_have=['postcondition'],
                        clause='the value kind left by %s is the one the parser contracts rely on (the owning members it calls are frame-only contracts)' % nm))
    return out
