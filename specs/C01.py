from lib_expr import *

EXPLANATION = ('Expression scanner (getOperation, isExpression) enforced for buffers of every length: reads stay inside the template buffer, loops terminate; '
               'operator dispatch (evaluateExpression) never traps on division or remainder, for all operand kinds and payloads.')
TRUSTED = ['TemplateCore is instantiated with a verification value type (QV::GValue) whose members are cut']
ASSUMPTIONS = ['call-site precondition of the attribute scanners: end_offset < length (the closing quote / brace of the tag is inside the buffer)',
               'TemplateCore::parse and render* (tag stack, type-punned TagBit) are NOT under contract: nested-tag overflow and similar defects there are outside this check']
GETOP = TC + '_getOperation'
ISEXP = TC + '_isExpression'


def jobs(tier):
    out = []
    isexp = dict(buffers=[('content', 'g_len')], requires=['offset <= g_len'], ensures=[], assigns=[],
                 loops={0: dict(invariant=['offset <= __CPROVER_loop_entry(offset)'], decreases='offset', assigns='offset')})
    out.append(dict(name='isExpression.memory-safety', unit=UNIT, fn=ISEXP, roots=[QTC + '::isExpression'], specs={ISEXP: isexp},
                    ghosts=[('unsigned int', 'g_len')], solver='cadical', timeout=300,
                    must_have=['loop_invariant_step', 'loop_decreases', 'pointer_dereference'],
                    clause='unary-sign look-behind reads only [content, content+offset) and terminates'))
    getop = dict(buffers=[('content', 'g_len')], refs=['offset'], requires=['end_offset < g_len', '*offset <= end_offset'],
                 ensures=['*offset <= end_offset', '__CPROVER_return_value <= 17'], assigns=['*offset'],
                 loops={0: dict(invariant=['*offset <= end_offset'], decreases='end_offset - *offset', assigns='*offset'),
                        1: dict(invariant=['*offset <= end_offset', '*offset >= __CPROVER_loop_entry(*offset)'], decreases='end_offset - *offset', assigns='*offset, skip'),
                        2: dict(invariant=['*offset < end_offset', '*offset >= __CPROVER_loop_entry(*offset)'], decreases='end_offset - *offset', assigns='*offset')})
    isexp_callee = dict(requires=['__CPROVER_r_ok(content, offset)'], ensures=['__CPROVER_return_value == 0 || __CPROVER_return_value == 1'], assigns=[])
    out.append(dict(name='getOperation.memory-safety', unit=UNIT, fn=GETOP, roots=[QTC + '::getOperation'], specs={GETOP: getop, ISEXP: isexp_callee},
                    replace=[ISEXP], ghosts=[('unsigned int', 'g_len')], solver='cadical', timeout=300,
                    must_have=['postcondition', 'loop_invariant_step', 'loop_decreases', 'pointer_dereference'],
                    clause='operator scanner (with one-unit look-ahead) reads only inside the buffer, terminates, leaves the cursor <= end_offset'))
    FN_NEXT = 'Finder__Tags_List__char_char_unsigned_int_Next'
    nxt = dict(obj_buffers=[('o_self.content_', 'o_self.length_', 'char')], requires=['__CPROVER_is_fresh(self, sizeof(*self))', '__CPROVER_is_fresh(self->content_, self->length_)', 'self->offset_ <= self->length_',
                         'self->length_ <= 0x7fffffffu'],
               ensures=['self->offset_ <= self->length_', 'self->match_ <= 11', 'self->offset_ >= __CPROVER_old(self->offset_)',
                        '(__CPROVER_old(self->offset_) < self->length_) ==> self->offset_ > __CPROVER_old(self->offset_)'],
               assigns=['self->offset_', 'self->match_'],
               loops={0: dict(invariant=['self->offset_ <= self->length_', 'self->match_ == 0', 'self->offset_ >= __CPROVER_loop_entry(self->offset_)'],
                              decreases='self->length_ - self->offset_', assigns='self->offset_, self->match_'),
                      1: dict(invariant=['id < group_count', 'self->offset_ == start_offset', 'self->match_ == 0'],
                              decreases='group_count - id', assigns='id, self->offset_, self->match_'),
                      2: dict(invariant=['start_offset <= self->offset_ && self->offset_ <= word_end_offset', 'word_offset == self->offset_ - start_offset',
                                         'word_end_offset < self->length_'],
                              decreases='word_end_offset - self->offset_', assigns='self->offset_, word_offset')})
    out.append(dict(name='Finder::Next.memory-safety', unit=UNIT, fn=FN_NEXT, roots=['Qentem::Finder<Qentem::Tags::List<char>, char, unsigned int>::Next'],
                    specs={FN_NEXT: nxt}, solver='cadical', timeout=600, objbits=10, split=8,
                    must_have=['postcondition', 'loop_invariant_step', 'loop_decreases', 'pointer_dereference'],
                    clause='tag-word matcher reads only [content, content+length) and inside the word tables, always advances, terminates, reports a match id within the table'))
    # ---- attribute scanners of the tag parser -------------------------------------------------------------------------------------
    PIF = TC + '_parseIfCase'
    PLA = TC + '_parseLoopAttributes'
    CLV = TC + '_checkLoopVariable'
    ISEQ_ = 'StringUtils_IsEqual__char'
    iseq_callee = dict(requires=['length == 0 || (__CPROVER_r_ok(left, length) && __CPROVER_r_ok(right, length))'], assigns=[],
                       ensures=['__CPROVER_return_value == 0 || __CPROVER_return_value == 1'])
    inv = ['*offset <= end_offset', '*offset >= __CPROVER_loop_entry(*offset)']
    LE = '((unsigned long long)end_offset + 1)'
    pif = dict(buffers=[('content', 'end_offset')], refs=['offset', 'case_offset', 'case_end_offset'], requires=['*offset <= end_offset', 'end_offset < 0xFFFFFFF0u'],
               ensures=['*offset <= end_offset + 1', '*offset >= __CPROVER_old(*offset)',
                        '(*case_end_offset != __CPROVER_old(*case_end_offset) || *case_offset != __CPROVER_old(*case_offset)) ==> (*case_offset <= *case_end_offset && *case_end_offset <= end_offset)'],
               assigns=['*offset', '*case_offset', '*case_end_offset'],
               loops={0: dict(invariant=inv, decreases='end_offset - *offset', assigns='*offset'),
                      1: dict(invariant=inv, decreases='end_offset - *offset', assigns='*offset'),
                      2: dict(invariant=['*offset <= end_offset', '*offset >= __CPROVER_loop_entry(*offset)'], decreases='%s - *offset' % LE, assigns='*offset'),
                      3: dict(invariant=inv + ['*case_offset <= *offset'], decreases='end_offset - *offset', assigns='*offset'),
                      4: dict(invariant=inv + ['*case_end_offset <= *offset'], decreases='end_offset - *offset', assigns='*offset')})
    out.append(dict(name='parseIfCase.memory-safety', unit=UNIT, fn=PIF, roots=[QTC + '::parseIfCase'], specs={PIF: pif, ISEQ_: iseq_callee}, replace=[ISEQ_],
                    solver='cadical', timeout=600, objbits=10, must_have=['postcondition', 'loop_invariant_step', 'loop_decreases', 'pointer_dereference'],
                    clause='the case="..." attribute scanner reads only [content, content+end_offset), terminates, and reports a case range inside the tag'))
    clv = dict(buffers=[('content', 'g_len')], requires=[ '__CPROVER_is_fresh(tag, sizeof(*tag))', '__CPROVER_is_fresh(loop_tag, sizeof(*loop_tag))', 'loop_tag->Parent == 0',
                         'tag->Offset <= g_len && (unsigned long long)tag->Offset + loop_tag->ValueLength <= g_len',
                         '(unsigned long long)loop_tag->Offset + loop_tag->ValueOffset + loop_tag->ValueLength <= g_len'],
               ensures=['tag->IDLength == __CPROVER_old(tag->IDLength) || tag->IDLength == loop_tag->ValueLength'],
               assigns=['tag->IDLength', 'tag->Level'],
               loops={0: dict(invariant=['loop_tag == 0 || loop_tag == __CPROVER_loop_entry(loop_tag)', 'tag->IDLength == __CPROVER_loop_entry(tag->IDLength)'], assigns='loop_tag, tag->IDLength, tag->Level')}, loops_partial=True)
    out.append(dict(name='checkLoopVariable.memory-safety', unit=UNIT, fn=CLV, roots=[QTC + '::checkLoopVariable'], specs={CLV: clv, ISEQ_: iseq_callee}, replace=[ISEQ_],
                    ghosts=[('unsigned int', 'g_len')], solver='cadical', timeout=300, objbits=10, must_have=['postcondition', 'precondition'],
                    clause='loop-variable matching compares only ranges that lie inside the template buffer (one enclosing loop)'))
    pla = dict(buffers=[('content', 'g_len')], requires=['__CPROVER_is_fresh(tag, sizeof(*tag))', 'end_offset < g_len', 'end_offset < 0xFFFFFFF0u',
                                                         '(unsigned long long)tag->Offset + 5 <= end_offset'],
               ensures=['tag->Set.Offset == __CPROVER_old(tag->Set.Offset) || ((unsigned long long)tag->Set.Offset <= end_offset)'],
               assigns=['__CPROVER_object_whole(tag)'],
               loops={0: dict(invariant=['offset <= end_offset', 'att_type <= 4'], decreases='%s - offset' % LE, assigns='offset, att_type, __CPROVER_object_whole(tag)'),
                      1: dict(invariant=['offset <= end_offset', 'offset >= __CPROVER_loop_entry(offset)'], decreases='end_offset - offset', assigns='offset'),
                      2: dict(invariant=['offset <= end_offset', 'offset >= __CPROVER_loop_entry(offset)'], decreases='end_offset - offset', assigns='offset'),
                      3: dict(invariant=['offset <= end_offset', 'offset >= __CPROVER_loop_entry(offset)'], decreases='%s - offset' % LE, assigns='offset'),
                      4: dict(invariant=['offset < end_offset', 'offset >= __CPROVER_loop_entry(offset)'], decreases='%s - offset' % LE, assigns='offset')})
    clv_callee = dict(requires=['__CPROVER_w_ok(tag, sizeof(*tag))'], assigns=['tag->IDLength', 'tag->Level'], ensures=[])
    unfinished = []   # parseLoopAttributes: obligation groups exceed 1500 s (five nested loop contracts, whole-tag havoc); kept for the record, not run
    unfinished.append(dict(name='parseLoopAttributes.memory-safety', unit=UNIT, fn=PLA, roots=[QTC + '::parseLoopAttributes'], specs={PLA: pla, ISEQ_: iseq_callee, CLV: clv_callee},
                    replace=[ISEQ_, CLV], ghosts=[('unsigned int', 'g_len')], solver='cadical', timeout=1500, objbits=10, split=16, split_par=8,
                    must_have=['postcondition', 'loop_invariant_step', 'loop_decreases', 'pointer_dereference'],
                    clause='the <loop ...> attribute scanner reads only inside the template buffer (closing > inside it), terminates, and records attribute offsets inside the tag'))
    for j in arith_jobs():
        if j['name'] in ('evaluateExpression.Division', 'evaluateExpression.Remainder'):
            j = dict(j)
            j['clause'] = 'division / remainder never trap (zero divisor, INT64_MIN % -1), for every operand kind and payload'
            out.append(j)
    return out
