"""contracts for the Value<char> stringifier (Value::stringifyValue / stringifyArray / stringifyObject / Stringify), instantiated with the
verification stream QV::GStream<char> (real template text, stream members are call-protocol contracts).

Ghost protocol of the stream:  g_emit becomes 1 with the first unit written and is never reset; g_last is the last unit written
(Last() returns &g_last, so the stringifier's "replace the trailing comma by the closer" writes through it).
What is proved, through the mutual recursion and for containers of every size:
  * every value that is not Undefined writes something; an array's text ends with ']' and an object's with '}', a string's with '"',
    true/false/null with their last letter - so no member text is empty and no comma is left dangling before a closer;
  * a ValuePtr writes what its target writes (the target's text, not nothing).
"""
UNIT = dict(driver='stringify.cpp')
FN_SV = 'Value__char_stringifyValue__QV_GStream__char'
FN_SA = 'Value__char_stringifyArray__QV_GStream__char'
FN_SO = 'Value__char_stringifyObject__QV_GStream__char'
FN_PUB = 'Value__char_Stringify__QV_GStream__char__QV_GStream__char_r_unsigned_int_c'
Q = 'Qentem::Value<char>::'
ST = 'QV_GStream__char_'
FN_ADD, FN_WRITE, FN_LAST = ST + 'op_add_assign', ST + 'Write', ST + 'Last'
FN_ESC = 'JSONUtils_Escape__char_QV_GStream__char'
FN_N_U64 = 'Digit_NumberToString__0_QV_GStream__char_unsigned_long_long'
FN_N_I64 = 'Digit_NumberToString__0_QV_GStream__char_long_long'
FN_N_DBL = 'Digit_NumberToString__0_QV_GStream__char_double'
FN_STR_FIRST, FN_STR_LEN = 'String__char_First', 'String__char_Length'
FN_ISUND = 'Value__char_IsUndefined'
HT = 'HashTable__String__char_HAItem_T__String__char_Value__char_'
FN_HT_FIRST, FN_HT_SIZE = HT + 'First', HT + 'Size'
FN_ARR_FIRST, FN_ARR_END = 'Array__Value__char_First', 'Array__Value__char_End'
ITEM = 'struct HAItem_T__String__char_Value__char'
VAL = 'struct Value__char'

# the element accessors of the containers are tiny and are taken as they are (real bodies, inlined)
AQ, HQ = 'Qentem::Array<Qentem::Value<char>>::', 'Qentem::HashTable<Qentem::String<char>, Qentem::HAItem_T<Qentem::String<char>, Qentem::Value<char>>>::'
UNCUT = [AQ + 'First', AQ + 'End', AQ + 'Storage', AQ + 'Size', HQ + 'First', HQ + 'Storage', HQ + 'Size', HQ + 'Capacity', HQ + 'getHashTable',
         'Qentem::String<char>::IsNotEmpty', 'Qentem::String<char>::IsEmpty', 'Qentem::String<char>::Length', 'Qentem::String<char>::First', 'Qentem::String<char>::Storage']
CUT_QUAL = ['Qentem::String<char>::', 'Qentem::Array<', 'Qentem::HArray<', 'Qentem::HashTable<', 'Qentem::Digit::NumberToString', 'Qentem::JSONUtils::Escape']
# g_items / g_nitems: the storage the container accessors hand out (set up by the precondition of the function under contract)
# (a ghost pointer that is only constrained by an equality must not be dereferenced in a contract: CBMC's value sets do not follow the equality)
# g_watch / g_seen / g_k: "the member at the arbitrary position g_k is written": stringifyValue raises g_seen when it is called on g_watch
GHOSTS = [('_Bool', 'g_emit'), ('char', 'g_last'), ('const ' + VAL + ' *', 'g_watch'), ('_Bool', 'g_seen'), ('unsigned int', 'g_k')]
SEEN = ['g_seen || !__CPROVER_old(g_seen)']
ASG = ['g_emit', 'g_last', 'g_seen']

from lib_parser import VT, UNDEF, OBJ, ARR, STR, kind_in
PTR = VT['ValuePtr']
SCALARS_EMIT = [STR, VT['UIntLong'], VT['IntLong'], VT['Double'], VT['True'], VT['False'], VT['Null']]
MUST = [OBJ, ARR] + SCALARS_EMIT


NOTBAD = '(g_last != 44 && g_last != 91 && g_last != 123 && g_last != 58)'     # not , [ { :
VALID_KINDS = sorted(VT.values())
TARGET_KINDS = [k for k in sorted(VT.values()) if k != VT['ValuePtr']]


def wellformed(k, pk):
    """data-structure invariant of a Value slot: a known kind; a pointer value refers to a value that is not itself a pointer (the one level the
    library's own accessors follow)"""
    return ['%s' % kind_in(k, VALID_KINDS), '%s == %d ==> %s' % (k, VT['ValuePtr'], kind_in(pk, TARGET_KINDS))]


def closer(kexpr):
    """what g_last must be after writing a value of kind kexpr (where the kind fixes it)"""
    return ['%s == %d ==> g_last == 125' % (kexpr, OBJ), '%s == %d ==> g_last == 93' % (kexpr, ARR), '%s == %d ==> g_last == 34' % (kexpr, STR),
            '%s == %d ==> g_last == 101' % (kexpr, VT['True']), '%s == %d ==> g_last == 101' % (kexpr, VT['False']), '%s == %d ==> g_last == 108' % (kexpr, VT['Null'])]


def sv_spec(enforce):
    """stringifyValue: by the kind of the value, or of the value it points to"""
    k, pk = 'val->type_', 'val->value_->type_'
    ens = ['g_emit || !__CPROVER_old(g_emit)',     # monotone
           '%s ==> g_emit' % kind_in(k, MUST), '%s ==> %s' % (kind_in(k, MUST), NOTBAD)] + closer(k)
    if enforce:
        # a pointer value refers to a live value (data-structure invariant of Value).  is_fresh cannot sit under an implication, so the
        # target object always exists; for the other kinds the bytes of value_ belong to members this function never reads itself
        req = ['__CPROVER_is_fresh(val, sizeof(*val))', '__CPROVER_is_fresh(stream, sizeof(*stream))', '__CPROVER_is_fresh(val->value_, sizeof(*val->value_))', '!g_emit']
        req = req + wellformed(k, pk)
        ens = ens + ['(%s == %d && %s) ==> g_emit' % (k, PTR, kind_in(pk, MUST))] + ['(%s == %d && %s' % (k, PTR, c.replace(' ==> ', ') ==> ', 1)) for c in closer(pk)]
        ens = ens + ['(%s || (%s == %d && %s)) ==> %s' % (kind_in(k, MUST), k, PTR, kind_in(pk, MUST), NOTBAD)]
    else:
        req = ['__CPROVER_r_ok(val, sizeof(*val))']
    hs = []
    if enforce:
        # bounded search / native replay only: the value is a keyword, Undefined, or a pointer to one of those (containers, strings and
        # numbers would need well-formed owned storage, which the generated harness cannot build)
        hs = ['__CPROVER_assume(o_val.type_ == 0 || o_val.type_ == 1 || (o_val.type_ >= 8 && o_val.type_ <= 10));',
              'static struct Value__char qx_tgt; qx_tgt.number_.Natural = 0; qx_tgt.type_ = (unsigned char)(8 + (precision % 3)); if (o_val.type_ == 1) o_val.value_ = &qx_tgt;']
    ens = ens + ['val == g_watch ==> g_seen'] + SEEN
    return dict(requires=req, ensures=ens, assigns=ASG, harness_setup=hs, ghost_returns=['if (val == g_watch) g_seen = 1'],
                cex_stub='  if (val == g_watch) g_seen = 1; if (val->type_ != 0) { g_emit = 1; g_last = (val->type_ == %d) ? 125 : (val->type_ == %d) ? 93 : (val->type_ == %d) ? 34 : 101; }' % (OBJ, ARR, STR))


def sa_spec(enforce):
    ens = ['g_emit', 'g_last == 93']
    if enforce:
        req = ['__CPROVER_is_fresh(arr, sizeof(*arr))', '__CPROVER_is_fresh(stream, sizeof(*stream))', '!g_emit',
               # representation invariant of Array: storage_ holds index_ elements
               'arr->index_ <= (1u << 24)', '__CPROVER_is_fresh(arr->storage_, ((__CPROVER_size_t)arr->index_) * sizeof(%s))' % VAL,
               # the arbitrary element g_k (if there is one) is the watched value
               '!g_seen', 'g_k < arr->index_ ==> g_watch == arr->storage_ + g_k']
        ens = ens + ['(g_k < arr->index_ && arr->storage_[g_k].type_ != %d && arr->storage_[g_k].type_ != %d) ==> g_seen' % (UNDEF, PTR)]
        loops = {0: dict(invariant=['__CPROVER_same_object(item, end)', '__CPROVER_POINTER_OFFSET(item) <= __CPROVER_POINTER_OFFSET(end)',
                                    '((unsigned int)__CPROVER_POINTER_OFFSET(item)) %% (unsigned int)sizeof(%s) == 0' % VAL, 'g_emit', 'g_last == 91 || g_last == 44',
                                    '(g_k < arr->index_ && __CPROVER_POINTER_OFFSET(item) > ((__CPROVER_size_t)g_k) * sizeof(%s) && arr->storage_[g_k].type_ != %d && arr->storage_[g_k].type_ != %d) ==> g_seen' % (VAL, UNDEF, PTR)],
                         decreases='__CPROVER_POINTER_OFFSET(end) - __CPROVER_POINTER_OFFSET(item)', assigns='item, g_emit, g_last, g_seen')}
        # bounded search / native replay only: a well-formed array of up to K keyword / Undefined values (kinds drawn as inputs)
        hs = ['o_arr.capacity_ = o_arr.index_; o_arr.storage_ = (struct Value__char *)malloc((o_arr.index_ ? o_arr.index_ : 1) * sizeof(struct Value__char)); __builtin_memset(o_arr.storage_, 0, (o_arr.index_ ? o_arr.index_ : 1) * sizeof(struct Value__char));',
              'static struct Value__char qx_tu, qx_tt; qx_tu.type_ = 0; qx_tt.type_ = 8;',
              'for (unsigned int qi = 0; qi < o_arr.index_; qi++) { unsigned char kk = qx_kinds[qi] & 15; __CPROVER_assume(kk == 0 || kk == 1 || (kk >= 8 && kk <= 10)); o_arr.storage_[qi].type_ = kk; if (kk == 1) o_arr.storage_[qi].value_ = (qx_kinds[qi] & 16) ? &qx_tt : &qx_tu; }',
              'if (g_k < o_arr.index_) g_watch = o_arr.storage_ + g_k;']
        return dict(requires=req, ensures=ens, assigns=ASG, loops=loops, harness_setup=hs, obj_buffers=[('qx_kinds', 'o_arr.index_', 'unsigned char')], native_both=True,
                    cex_stub='  g_emit = 1; g_last = 93;')
    return dict(requires=['__CPROVER_r_ok(arr, sizeof(*arr))'], ensures=ens + SEEN, assigns=ASG, cex_stub='  g_emit = 1; g_last = 93;')


def so_spec(enforce):
    ens = ['g_emit', 'g_last == 125']
    if enforce:
        req = ['__CPROVER_is_fresh(obj, sizeof(*obj))', '__CPROVER_is_fresh(stream, sizeof(*stream))', '!g_emit',
               # representation invariant of HashTable: one block holding capacity_ bucket heads followed by capacity_ item slots, index_ of them in use
               'obj->qx_base.capacity_ <= (1u << 20) && obj->qx_base.index_ <= obj->qx_base.capacity_',
               '__CPROVER_is_fresh(obj->qx_base.hashTable_, ((__CPROVER_size_t)obj->qx_base.capacity_) * (sizeof(unsigned int) + sizeof(%s)))' % ITEM,
               # the arbitrary member g_k (if there is one) holds the watched value
               '!g_seen', 'g_k < obj->qx_base.index_ ==> g_watch == &((%s *)(obj->qx_base.hashTable_ + obj->qx_base.capacity_))[g_k].Value' % ITEM]
        ens = ens + ['(g_k < obj->qx_base.index_ && ((%s *)(obj->qx_base.hashTable_ + obj->qx_base.capacity_))[g_k].Value.type_ != %d && ((%s *)(obj->qx_base.hashTable_ + obj->qx_base.capacity_))[g_k].Value.type_ != %d) ==> g_seen' % (ITEM, UNDEF, ITEM, PTR)]
        loops = {0: dict(invariant=['__CPROVER_same_object(h_item, end)', '__CPROVER_POINTER_OFFSET(h_item) <= __CPROVER_POINTER_OFFSET(end)',
                                    '__CPROVER_POINTER_OFFSET(h_item) >= 4 * (__CPROVER_size_t)obj->qx_base.capacity_',
                                    '((unsigned int)(__CPROVER_POINTER_OFFSET(h_item) - 4 * (__CPROVER_size_t)obj->qx_base.capacity_)) %% (unsigned int)sizeof(%s) == 0' % ITEM, 'g_emit', 'g_last == 123 || g_last == 44',
                                    '(g_k < obj->qx_base.index_ && __CPROVER_POINTER_OFFSET(h_item) > 4 * (__CPROVER_size_t)obj->qx_base.capacity_ + ((__CPROVER_size_t)g_k) * sizeof(%s) && ((%s *)(obj->qx_base.hashTable_ + obj->qx_base.capacity_))[g_k].Value.type_ != %d && ((%s *)(obj->qx_base.hashTable_ + obj->qx_base.capacity_))[g_k].Value.type_ != %d) ==> g_seen' % (ITEM, ITEM, UNDEF, ITEM, PTR)],
                         decreases='__CPROVER_POINTER_OFFSET(end) - __CPROVER_POINTER_OFFSET(h_item)', assigns='h_item, g_emit, g_last, g_seen')}
        # bounded search / native replay only: a well-formed table (one block: bucket heads, then the slots) of up to K members with
        # keyword / Undefined values; keys are empty or the one-unit string "k" (key lengths drawn as inputs)
        hs = ['o_obj.qx_base.capacity_ = 4;   /* constant-size block: four bucket heads, four slots */',
              'o_obj.qx_base.hashTable_ = (unsigned int *)malloc(4 * (sizeof(unsigned int) + sizeof(%s))); __builtin_memset(o_obj.qx_base.hashTable_, 0, 4 * (sizeof(unsigned int) + sizeof(%s)));' % (ITEM, ITEM),
              '{ %s *qs = (%s *)(o_obj.qx_base.hashTable_ + o_obj.qx_base.capacity_); static char qx_key[1] = {107};' % (ITEM, ITEM),
              '  static struct Value__char qx_tu, qx_tt; qx_tu.type_ = 0; qx_tt.type_ = 8;',
              '  for (unsigned int qi = 0; qi < o_obj.qx_base.index_; qi++) { unsigned char kk = qx_kinds[qi] & 15; __CPROVER_assume(kk == 0 || kk == 1 || (kk >= 8 && kk <= 10)); __CPROVER_assume(qx_klen[qi] <= 1);',
              '    qs[qi].Value.type_ = kk; if (kk == 1) qs[qi].Value.value_ = (qx_kinds[qi] & 16) ? &qx_tt : &qx_tu; qs[qi].Key.length_ = qx_klen[qi]; qs[qi].Key.storage_ = qx_klen[qi] ? qx_key : (char *)0; qs[qi].Hash = 1 + qi; }',
              '  if (g_k < o_obj.qx_base.index_) g_watch = &qs[g_k].Value; }']
        return dict(requires=req, ensures=ens, assigns=ASG, loops=loops, harness_setup=hs, native_both=True, cex_stub='  g_emit = 1; g_last = 125;',
                    obj_buffers=[('qx_kinds', 'o_obj.qx_base.index_', 'unsigned char'), ('qx_klen', 'o_obj.qx_base.index_', 'unsigned char')])
    return dict(requires=['__CPROVER_r_ok(obj, sizeof(*obj))'], ensures=ens + SEEN, assigns=ASG, cex_stub='  g_emit = 1; g_last = 125;')


def pub_spec():
    """public Stringify(stream, precision): containers (also behind a pointer) are written, scalars are not"""
    k, pk = 'self->type_', 'self->value_->type_'
    return dict(requires=['__CPROVER_is_fresh(self, sizeof(*self))', '__CPROVER_is_fresh(stream, sizeof(*stream))', '__CPROVER_is_fresh(self->value_, sizeof(*self->value_))', '!g_emit'],
                ensures=['%s == %d ==> (g_emit && g_last == 125)' % (k, OBJ), '%s == %d ==> (g_emit && g_last == 93)' % (k, ARR),
                         '(%s == %d && %s == %d) ==> (g_emit && g_last == 125)' % (k, PTR, pk, OBJ), '(%s == %d && %s == %d) ==> (g_emit && g_last == 93)' % (k, PTR, pk, ARR),
                         '__CPROVER_return_value == stream'],
                assigns=ASG)


def pub_callee():
    k = 'self->type_'
    return dict(requires=['__CPROVER_r_ok(self, sizeof(*self))'],
                ensures=['g_emit || !__CPROVER_old(g_emit)', '%s == %d ==> (g_emit && g_last == 125)' % (k, OBJ), '%s == %d ==> (g_emit && g_last == 93)' % (k, ARR),
                         '__CPROVER_return_value == stream'] + SEEN,
                assigns=ASG, cex_stub='  if (self->type_ == %d) { g_emit = 1; g_last = 125; } if (self->type_ == %d) { g_emit = 1; g_last = 93; } return stream;' % (OBJ, ARR))


def stream_specs():
    return {
        # (bounded jobs and native replays run the stub: a comma is only ever written after the text of a value - never first, never after
        #  an opener, a colon or another comma; the modular proofs cannot carry this through pointer members of symbolic storage)
        FN_ADD: dict(assigns=['g_emit', 'g_last'], ensures=['g_emit', 'g_last == ch'],
                     stub_body='  __CPROVER_assert(ch != 44 || (g_emit && %s), "a comma is written only after the text of a value"); g_emit = 1; g_last = ch;' % NOTBAD),
        FN_WRITE: dict(requires=['length == 0 || __CPROVER_r_ok(str, length)'], assigns=['g_emit', 'g_last'],
                       ensures=['length != 0 ==> (g_emit && g_last == str[length - 1])', 'length == 0 ==> (g_emit == __CPROVER_old(g_emit) && g_last == __CPROVER_old(g_last))'],
                       stub_body='  if (length != 0) { g_emit = 1; g_last = str[length - 1]; }'),
        # Last(): the last unit of the stream; null only while nothing has been written
        FN_LAST: dict(assigns=[], ensures=['__CPROVER_return_value == &g_last || (__CPROVER_return_value == 0 && !g_emit)'],
                      stub_body='  return g_emit ? &g_last : (char *)0;'),
        # Escape writes string content (possibly nothing for an empty string); enforced as a transduction under C08
        FN_ESC: dict(assigns=['g_emit', 'g_last'], ensures=['g_emit || !__CPROVER_old(g_emit)'], stub_body='  if (length != 0) { g_emit = 1; g_last = content[length - 1]; }'),
        # number writers put at least one unit (assumed; Digit::NumberToString is under contract in C10 for zero / non-finite / 8- and 16-bit integers only)
        # Value::IsUndefined(): exact for every kind but a pointer value, whose target lives in storage the modular proof knows nothing about
        FN_ISUND: dict(requires=['__CPROVER_r_ok(self, sizeof(*self))'], assigns=[],
                       ensures=['self->type_ == %d ==> __CPROVER_return_value' % UNDEF, '(self->type_ != %d && self->type_ != %d) ==> !__CPROVER_return_value' % (UNDEF, PTR)],
                       stub_body='  return self->type_ == %d || (self->type_ == %d && self->value_->type_ == %d);' % (UNDEF, PTR, UNDEF)),
        FN_N_U64: dict(assigns=['g_emit', 'g_last'], ensures=['g_emit', NOTBAD], stub_body='  g_emit = 1; g_last = 48;'),
        FN_N_I64: dict(assigns=['g_emit', 'g_last'], ensures=['g_emit', NOTBAD], stub_body='  g_emit = 1; g_last = 48;'),
        FN_N_DBL: dict(assigns=['g_emit', 'g_last'], ensures=['g_emit', NOTBAD], stub_body='  g_emit = 1; g_last = 48;'),
    }


LEAVES = [FN_ADD, FN_WRITE, FN_LAST, FN_ESC, FN_N_U64, FN_N_I64, FN_N_DBL, FN_ISUND]


FN_SV_REC, FN_PUB_REC = FN_SV + '_rec', FN_PUB + '_rec'


def specs_for(fn):
    sp = stream_specs()
    sp[FN_SV] = sv_spec(fn == FN_SV)
    sp[FN_SA] = sa_spec(fn == FN_SA)
    sp[FN_SO] = so_spec(fn == FN_SO)
    sp[FN_PUB] = pub_spec() if fn == FN_PUB else pub_callee()
    # the recursive call of the function under contract is discharged against the callee form of its contract
    sp[FN_SV_REC] = sv_spec(False)
    sp[FN_PUB_REC] = pub_callee()
    return sp


def comma_jobs():
    """bounded stand-in: the real stringifyArray / stringifyObject (with the real stringifyValue below them) on every well-formed container of up to 3
    members whose values are keywords, Undefined, or pointers to a keyword / to an Undefined value; the stream stub asserts that a comma is only
    written after the text of a value - so no ",," / "[," / ":," and, with the closer clause, no text such as [1,,2] or {"a":}"""
    out = []
    for nm, fn, root in (('stringifyArray', FN_SA, Q + 'stringifyArray<QV::GStream<char>>'), ('stringifyObject', FN_SO, Q + 'stringifyObject<QV::GStream<char>>')):
        sp = specs_for(fn)
        slot = 'arr->storage_[g_k]' if fn == FN_SA else '((%s *)(obj->qx_base.hashTable_ + obj->qx_base.capacity_))[g_k].Value' % ITEM
        cnt = 'arr->index_' if fn == FN_SA else 'obj->qx_base.index_'
        sp[fn] = dict(sp[fn], ensures=sp[fn]['ensures'] + ['(g_k < %s && %s.type_ == %d && %s.value_->type_ != %d) ==> g_seen' % (cnt, slot, PTR, slot, UNDEF)])
        out.append(dict(name='Value<char>.%s.comma-discipline' % nm, unit=UNIT, fn=fn, roots=[root], cut_qual=CUT_QUAL, uncut_qual=UNCUT, specs=sp, ghosts=GHOSTS, mode='harness', prune_specs=True, cex_recursive=[FN_SV, FN_SA, FN_SO, FN_PUB],
                        pre='static unsigned char *qx_kinds; static unsigned char *qx_klen;\n', harness_K=(3 if fn == FN_SA else 2), harness_unwind=6, cex_K=(3 if fn == FN_SA else 2), cex_unwind=6,
                        solver='cadical', timeout=600, objbits=10, must_have=['assertion'], cbmc_flags=['--slice-formula'],
                        bounded='every well-formed container of up to %d members;' % (3 if fn == FN_SA else 2) + ' member values: true / false / null / Undefined / a pointer to true / a pointer to an Undefined value; keys empty or one unit',
                        clause='the text of a small container has no comma that does not follow a value text (an Undefined member, also behind a pointer, leaves no empty slot) and ends on its closer'))
    return out


def jobs():
    out = []
    for nm, fn, root, others, rename, clause in (
            ('stringifyValue', FN_SV, Q + 'stringifyValue<QV::GStream<char>>', [FN_SV_REC, FN_SA, FN_SO, FN_PUB], {FN_SV: {FN_SV: FN_SV_REC}},
             'every kind but Undefined writes its text (ending with its closer where the kind fixes one); a pointer value writes what its target writes, never nothing for a target that has a text'),
            ('stringifyArray', FN_SA, Q + 'stringifyArray<QV::GStream<char>>', [FN_SV, FN_SO, FN_PUB], None,
             'an array of any size is written as "[" ... "]" with no comma left before the closer; the element loop stays inside the element storage and terminates'),
            ('stringifyObject', FN_SO, Q + 'stringifyObject<QV::GStream<char>>', [FN_SV, FN_SA, FN_PUB], None,
             'an object of any size is written as "{" ... "}" with no comma left before the closer; the member loop stays inside the member storage and terminates'),
            ('Stringify', FN_PUB, Q + 'Stringify<QV::GStream<char>>', [FN_PUB_REC, FN_SV, FN_SA, FN_SO], {FN_PUB: {FN_PUB: FN_PUB_REC}},
             'the public entry writes objects and arrays, also behind a pointer value')):
        sp = specs_for(fn)
        out.append(dict(name='Value<char>.%s' % nm, unit=UNIT, fn=fn, roots=[root], cut_qual=CUT_QUAL + ['Qentem::Value<char>::IsUndefined'], specs=sp, replace=LEAVES + others, ghosts=GHOSTS, prune_specs=True,
                        call_rename=rename, uncut_qual=UNCUT, solver='cadical', timeout=900, objbits=10, split=(12 if fn in (FN_SA, FN_SO) else 0), cbmc_flags=['--slice-formula'], must_have=['postcondition'], clause=clause,
                        cex_K=3, cex_unwind=6, cex_recursive=[FN_SV, FN_SA, FN_SO, FN_PUB],
                        pre='static unsigned char *qx_kinds; static unsigned char *qx_klen;\n',
                        cex_skip=(None if fn != FN_PUB else 'its inputs are linked containers with owned storage, which the generated harness cannot build')))
    return out + comma_jobs()
