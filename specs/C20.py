from lib_json import *

EXPLANATION = ('Unicode::ToUTF enforced against the standard UTF-8/16/32 encodings over all scalar values (loop-free, full domain); '
               'Digit::HexStringToNumber on four units; JSONUtils::UnEscape on the shapes \\\\uXXXX" and \\\\uHHHH\\\\uLLLL" with all hex digits symbolic.')
TRUSTED = ['QV::GStream members are callee contracts (unit recorder protocol over ghost scalars g_n, g_u0..g_u3); their meaning as "append to the stream" is the StringStream contract of C14']
ASSUMPTIONS = ['the output stream object is distinct from the input buffer']


def jobs(tier):
    out = []
    chars = ['char', 'char16_t', 'char32_t'] if tier == 'quick' else list(CHARS)
    for c in chars:
        # (a) encoder, full domain
        out.append(dict(name='ToUTF<%s>.standard-encoding' % c, unit=UNIT, fn=fn_toutf(c), roots=['Qentem::Unicode::ToUTF<%s, QV::GStream<%s>>' % (c, c)],
                        specs={fn_toutf(c): dict(refs=['stream'], harness_setup=['g_n = 0;'], requires=[SCALAR % ('unicode', 'unicode', 'unicode'), 'g_n == 0'],
                                                 ensures=utf_ensures(c, 'unicode'), assigns=['g_n', 'g_u0', 'g_u1', 'g_u2', 'g_u3']),
                               fn_append(c): rec_append_spec(c)},
                        replace=[fn_append(c)], ghosts=GH_REC, solver='cadical', timeout=300, must_have=['postcondition'],
                        clause='every Unicode scalar value is encoded to exactly the standard UTF-%d units' % (8 * WIDTH[c])))
    return out


def hex4_spec(c):
    p = 'value'
    return dict(buffers=[('value', 'length')], requires=['length == 4'],
                ensures=['(QX_ISHEX(value[0]) && QX_ISHEX(value[1]) && QX_ISHEX(value[2]) && QX_ISHEX(value[3])) ==> __CPROVER_return_value == QX_HEX4(value)',
                         '!QX_ISHEX(value[0]) ==> __CPROVER_return_value == 0',
                         '(QX_ISHEX(value[0]) && !QX_ISHEX(value[1])) ==> __CPROVER_return_value == QX_HEXV(value[0])',
                         '(QX_ISHEX(value[0]) && QX_ISHEX(value[1]) && !QX_ISHEX(value[2])) ==> __CPROVER_return_value == ((QX_HEXV(value[0]) << 4) | QX_HEXV(value[1]))'],
                assigns=[])


def shape_jobs(c):
    ct = CHARS[c]
    bs, uu, ul, q = ('((%s)92)' % ct, '((%s)85)' % ct, '((%s)117)' % ct, '((%s)34)' % ct)
    hexok = lambda o: ' && '.join('QX_ISHEX(content[%d])' % (o + i) for i in range(4))
    callee = {fn_append(c): rec_append_spec(c), fn_write(c): rec_write_spec(), fn_notempty(c): nondet_bool_spec()}
    un = 'JSONUtils_UnEscape__%s_QV_GStream__%s.0:4,%s.0:5' % (c, c, fn_hex3(c))
    base = dict(unit=UNIT, fn=fn_unescape(c), roots=['Qentem::JSONUtils::UnEscape<%s, QV::GStream<%s>>' % (c, c)],
                mode='harness', harness_K=13, harness_unwind=6, ghosts=GH_REC, pre=HEX_PRE, solver='cadical', timeout=900, objbits=10,
                must_have=['assertion', 'unwind'], cex_K=13, cex_unwind=16, cex_nosplit=True, weight=2)
    # single escape  \uXXXX"
    cp1 = 'QX_HEX4(content + 2)'
    s1 = dict(buffers=[('content', 'length')], refs=['stream', 'terminated'], harness_setup=['g_n = 0; g_slices = 0;'],
              requires=['length == 7', 'content[0] == %s && (content[1] == %s || content[1] == %s) && content[6] == %s' % (bs, uu, ul, q),
                        hexok(2), SCALAR % (cp1, cp1, cp1), 'g_n == 0 && g_slices == 0'],
              ensures=['__CPROVER_return_value == 7', 'g_slices == 0'] + utf_ensures(c, cp1),
              assigns=['g_n', 'g_u0', 'g_u1', 'g_u2', 'g_u3', 'g_slices'], loops=None)
    j1 = dict(base, name='UnEscape<%s>.u-escape' % c, specs=dict(callee, **{fn_unescape(c): s1}), fixed={'length': 7},
              clause='\\uXXXX decodes to the standard encoding of the code point it names, both hex cases')
    # surrogate pair \uHHHH\uLLLL"
    hi, lo = 'QX_HEX4(content + 2)', 'QX_HEX4(content + 8)'
    cp2 = '(0x10000u + ((%s & 0x3FFu) << 10) + (%s & 0x3FFu))' % (hi, lo)
    s2 = dict(buffers=[('content', 'length')], refs=['stream', 'terminated'], harness_setup=['g_n = 0; g_slices = 0;'],
              requires=['length == 13', 'content[0] == %s && (content[1] == %s || content[1] == %s)' % (bs, uu, ul),
                        'content[6] == %s && (content[7] == %s || content[7] == %s) && content[12] == %s' % (bs, uu, ul, q),
                        hexok(2), hexok(8), '%s >= 0xD800u && %s <= 0xDBFFu && %s >= 0xDC00u && %s <= 0xDFFFu' % (hi, hi, lo, lo),
                        'g_n == 0 && g_slices == 0'],
              ensures=['__CPROVER_return_value == 13', 'g_slices == 0'] + utf_ensures(c, cp2),
              assigns=['g_n', 'g_u0', 'g_u1', 'g_u2', 'g_u3', 'g_slices'], loops=None)
    j2 = dict(base, name='UnEscape<%s>.surrogate-pair' % c, specs=dict(callee, **{fn_unescape(c): s2}), fixed={'length': 13},
              clause='\\uD800-\\uDBFF followed by \\uDC00-\\uDFFF decodes to the encoding of the supplementary code point')
    return [j1, j2]


_jobs0 = jobs


def jobs(tier):
    out = _jobs0(tier)
    chars = ['char', 'char16_t', 'char32_t'] if tier == 'quick' else list(CHARS)
    for c in chars:
        out.append(dict(name='HexStringToNumber<%s>.four-digits' % c, unit=UNIT, fn=fn_hex2(c), roots=['Qentem::Digit::HexStringToNumber<unsigned int, %s>' % c],
                        specs={fn_hex2(c): hex4_spec(c)}, pre=HEX_PRE, solver='cadical', timeout=300,
                        pre_unwindset='%s.0:5' % fn_hex3(c), must_have=['postcondition', 'unwind'],
                        clause='four hex digits of either case give their value; a non-hex unit stops the scan (loop unwound to its constant bound 4)'))
        out += shape_jobs(c)
    return out
