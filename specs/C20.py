from lib_json import *

EXPLANATION = ('Unicode::ToUTF enforced against the standard UTF-8/16/32 encodings over all scalar values (loop-free, full domain); '
               'Digit::HexStringToNumber on four units; JSONUtils::UnEscape on the shapes \\\\uXXXX" and \\\\uHHHH\\\\uLLLL" with all hex digits symbolic.')
TRUSTED = ['QV::GStream members are callee contracts (unit recorder protocol over ghost scalars g_n, g_u0..g_u3); their meaning as "append to the stream" is the StringStream contract of C14']
ASSUMPTIONS = ['the output stream object is distinct from the input buffer']


def jobs(tier):
    out = []
    chars = ['char', 'char16_t', 'char32_t'] if tier == 'quick' else list(CHARS)
    for c in chars:
        # (a) encoder, full domain
        out.append(dict(name='ToUTF<%s>.standard-encoding' % c, unit=UNIT, fn=fn_toutf(c), roots=['Qentem::Unicode::ToUTF<%s, QV::GStream<%s>>' % (c, c)],
                        specs={fn_toutf(c): dict(refs=['stream'], requires=[SCALAR % ('unicode', 'unicode', 'unicode'), 'g_n == 0'],
                                                 ensures=utf_ensures(c, 'unicode'), assigns=['g_n', 'g_u0', 'g_u1', 'g_u2', 'g_u3']),
                               fn_append(c): rec_append_spec(c)},
                        replace=[fn_append(c)], ghosts=GH_REC, solver='cadical', timeout=300, must_have=['postcondition'],
                        clause='every Unicode scalar value is encoded to exactly the standard UTF-%d units' % (8 * WIDTH[c])))
    return out
