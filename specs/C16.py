import C14 as C14mod
from lib_containers import SS, QSS
import lib_containers as LC

EXPLANATION = ('Ownership contracts of StringStream<char> and String<char>: every mutator that may reallocate carries __CPROVER_frees(old storage); the result is a '
               'valid block again; Reset releases exactly once (was_freed) and Detach does not; CBMC double-free / use-after-free / invalid-free checks are '
               'obligations of every job; a bounded construct-operate-destroy history is leak-checked.')
TRUSTED = ['Memory::Copy callee contract (enforced in C14)']
ASSUMPTIONS = ['only containers with trivial elements are covered: Value, HArray<String,Value>, TagBit/tag records, QExpression sub-lists and parser failure paths are NOT under contract']


def jobs(tier):
    out = []
    for j in C14mod.ss_jobs() + C14mod.string_jobs():
        if any(k in j['name'] for k in ('write.', 'append-char', 'Buffer', 'SetLength', 'InsertNull', 'Reset', 'Detach', 'self-append', 'Write.')):
            j = dict(j)
            j['clause'] = 'ownership: ' + j['clause']
            out.append(j)
    roots = [QSS + '::write', QSS + '::operator+=(const char)', QSS + '::~StringStream', QSS + '::Reset', QSS + '::operator+=(const Qentem::StringStream<char> &)']
    harness = '''
void qx_harness(void)
{
  struct StringStream__char s;
  s.storage_ = 0; s.length_ = 0; s.capacity_ = 0;   /* default member initialisers of StringStream */
  char buf[3];
  unsigned int n1 = 2, n2 = 3;
  StringStream__char_write(&s, buf, n1);
  StringStream__char_op_add_assign__const_char(&s, 'x');
  StringStream__char_op_add_assign__const_StringStream__char_r(&s, &s);   /* self append, may grow */
  StringStream__char_write(&s, buf, n2);
  _Bool reset;
  if (reset) StringStream__char_Reset(&s);
  StringStream__char_dtor(&s);
}
'''
    out.append(dict(name='StringStream<char>.history.leak-free', unit=LC.UNIT, fn='StringStream__char_dtor', roots=roots, specs={}, mode='raw', harness=harness,
                    unwind=40, solver='cadical', timeout=600, objbits=9, canary=False, cbmc_flags=['--memory-leak-check'],
                    checks=['--bounds-check', '--pointer-check', '--div-by-zero-check'],
                    bounded='one history with symbolic contents: write(2), += char, += itself (grows), write(3), optional Reset, destructor; loops unwound to 40',
                    must_have=['memory-leak|leak'], clause='a construct-append-selfappend-destroy history releases every block exactly once (no leak, no double free, no use after free)'))
    return out
