import json,re,sys,glob
rows=[]
for d in sorted(glob.glob('/verif/seeded/*/meta.json')):
    m=json.load(open(d))
    notes=m['needs_to_manifest'].split('\n')
    what=' '.join(notes)[:140].replace('|','/')
    obl=m['failing_obligations'][0]['obligation'] if m['failing_obligations'] else ''
    rep='yes' if any(o['replayed_on_real_code'] for o in m['failing_obligations']) else ('' if m['check_exit']!=1 else 'no')
    rows.append('| %s | %s | %s | %s | %s |' % (m['seed'], what, {1:'**caught**',2:'undecided',0:'missed'}.get(m['check_exit'],'?'), ('`'+obl.split('.',1)[-1][:48]+'`') if obl else '', rep))
tab='| seed | change (from its notes.txt) | quick check | first failing obligation | replayed on real code |\n|---|---|---|---|---|\n'+'\n'.join(rows)
p='/verif/DESIGN.md'
s=open(p).read()
if 'SEED_TABLE_PLACEHOLDER' in s:
    s=s.replace('SEED_TABLE_PLACEHOLDER', '<!-- seed table begin -->\n'+tab+'\n<!-- seed table end -->')
else:
    s=re.sub(r'<!-- seed table begin -->.*?<!-- seed table end -->', lambda m_: '<!-- seed table begin -->\n'+tab+'\n<!-- seed table end -->', s, flags=re.S)
open(p,'w').write(s)
print(len(rows),'rows')
