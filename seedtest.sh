#!/bin/sh
# usage: ./seedtest.sh <seed-dir-name> <property-id> [check args]   -- applies seeded/<name>/patch.diff to /repo, runs the check, reverts
S=$1; P=$2; shift 2
git -C /repo diff --quiet || { echo "/repo is dirty"; exit 3; }
git -C /repo apply /verif/seeded/$S/patch.diff || { echo "patch does not apply"; exit 3; }
./check $P "$@"; rc=$?
git -C /repo checkout -- .
echo "seed $S on $P -> exit $rc"
exit $rc
