#!/bin/sh
# usage: ./seedtest.sh <seed-dir-name> <property-id> [check args]
# Applies seeded/<name>/patch.diff to a scratch copy of /repo (outside /repo and /verif), runs the property's check against
# that copy (QX_REPO), prints the verdict and removes the copy.  Evidence/replays of the experiment go to the scratch dir.
S=$1; P=$2; shift 2
D=$(mktemp -d /var/tmp/qx_seed.XXXXXX)
trap 'rm -rf "$D"' EXIT
mkdir -p "$D/repo" && cp -r /repo/Include "$D/repo/Include" && ( cd "$D/repo" && git init -q . && git apply /verif/seeded/$S/patch.diff ) || { echo "seed $S: patch does not apply to the current tree"; exit 3; }
QX_REPO="$D/repo" QX_OUT="$D/out" /verif/check $P "$@" > "$D/log" 2>&1; rc=$?
grep -E "VIOLATION|UNDECIDED|PASS|KNOWN" "$D/log" | sed "s#$D#<scratch>#g" | cut -c1-260
for f in "$D"/out/replays/$P/*.json; do [ -f "$f" ] && python3 - "$f" <<'PY'
import json,sys
d=json.load(open(sys.argv[1])); c=d.get('concretisation',{})
print('   obligation:', d.get('obligation'), '| reproduced:', c.get('reproduced'), '| inputs:', str(c.get('inputs'))[:300])
PY
done
echo "seed $S on $P -> exit $rc"
exit $rc
