#!/bin/bash
# confirms every seeded change against the CURRENT /repo HEAD in a scratch worktree (outside /repo and /verif):
#   demo passes without the patch; with the patch the tree builds, the 15-test suite passes and the demo fails.
# usage: ./seedconfirm.sh [seed ...]   -> prints one line per seed and appends to seeded/CONFIRMED.txt
cd /verif
seeds="$@"; [ -z "$seeds" ] && seeds=$(ls seeded | grep -v CONFIRMED)
for s in $seeds; do
  W=$(mktemp -d /var/tmp/qx_confirm.XXXXXX); rmdir $W
  git -C /repo worktree add -q --detach $W HEAD || { echo "$s worktree-failed"; continue; }
  flags="-std=c++17 -I $W/Include"
  case $s in C05-*|C01-*) flags="$flags -fsanitize=address,undefined";; C03-*) flags="$flags -fsanitize=address";; C14-*) flags="$flags -march=native -DQENTEM_SSE2=1 -fsanitize=address";; esac
  base=fail; patched_build=fail; tests=fail; demo_patched=pass
  g++ $flags seeded/$s/demo.cpp -o $W/demo0 2>/dev/null && (cd $W && timeout 60 ./demo0 >/dev/null 2>&1) && base=pass
  if git -C $W apply /verif/seeded/$s/patch.diff 2>/dev/null; then
    if cmake -S $W -B $W/_b -G Ninja -DCMAKE_BUILD_TYPE=RelWithDebInfo >/dev/null 2>&1 && cmake --build $W/_b -j16 >/dev/null 2>&1; then patched_build=pass; fi
    n=$(ctest --test-dir $W/_b -j8 2>/dev/null | grep -c "Passed")
    [ "$n" = "15" ] && tests=pass
    g++ $flags seeded/$s/demo.cpp -o $W/demo1 2>/dev/null && { (cd $W && timeout 20 ./demo1 >/dev/null 2>&1) || demo_patched=fail; }
  else
    patched_build=patch-does-not-apply
  fi
  echo "$s demo-without-patch=$base build-with-patch=$patched_build suite-with-patch=$tests($n/15) demo-with-patch=$demo_patched" | tee -a seeded/CONFIRMED.txt
  git -C /repo worktree remove --force $W
done
