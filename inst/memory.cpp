#include "memory.hpp"
namespace Qentem {
template void Memory::Copy<SizeT>(void *, const void *, SizeT) noexcept;
template void Memory::SetToZero<SizeT>(void *, SizeT) noexcept;
template void Memory::Copy<SystemIntType>(void *, const void *, SystemIntType) noexcept;
template void Memory::SetToZero<SystemIntType>(void *, SystemIntType) noexcept;
template struct StringStream<char>;
}
namespace Qentem {
template struct String<char>;
template struct Array<SizeT>;
}
