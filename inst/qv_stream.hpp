// Verification stream: a Stream_T template argument whose members are declared and never
// defined.  The library's stream-generic templates are instantiated with it, so the code under
// contract is the real template text; the members are callee contracts (cut).
#ifndef QV_STREAM_HPP
#define QV_STREAM_HPP
#include "QCommon.hpp"
namespace QV {
template <typename C> struct GStream {
    using CharType = C;
    void Write(const C *str, Qentem::SizeT length);
    void operator+=(C ch);
    bool IsNotEmpty() const noexcept;
    bool IsEmpty() const noexcept;
    Qentem::SizeT Length() const noexcept;
    C *Last() const noexcept;
    C *Storage() const noexcept;
    void Reverse(Qentem::SizeT index = 0) noexcept;
    void StepBack(const Qentem::SizeT len) noexcept;
    void InsertAt(C ch, Qentem::SizeT index);
    C *Buffer(Qentem::SizeT len);
    void SetLength(Qentem::SizeT len);
    const C *First() const noexcept;
};
}
#endif
