// headers of the template-scanner unit.  TemplateCore is instantiated with a verification value type: its members are
// declared and never defined, so everything that touches a value tree is a cut callee; the scanners and the expression
// operators are the real template text.
#ifndef QV_TMPL_HPP
#define QV_TMPL_HPP
#include <new>
#include "qv_stream.hpp"
#include "Template.hpp"
namespace QV {
struct GValue {
    Qentem::QNumberType GetNumberType() const noexcept;
    Qentem::QNumberType SetNumber(Qentem::QNumber64 &number) const noexcept;
    bool SetCharAndLength(const char *&key, Qentem::SizeT &length) const noexcept;
    const GValue *GetValue(const char *key, Qentem::SizeT length) const noexcept;
    bool IsString() const noexcept;
    template <typename S, typename F = void(S, const char *, Qentem::SizeT)>
    bool CopyValueTo(S &stream, const Qentem::Digit::RealFormatInfo format = {}, F *string_function = nullptr) const;
    Qentem::SizeT Length() const noexcept;
};
}
#endif
