// explicit instantiations of the StringUtils leaf functions (real template text from /repo/Include)
#include "strutils.hpp"
namespace Qentem { namespace StringUtils {
#define QV_INST(C) \
template bool IsLess<C>(const C*, const C*, SizeT, SizeT, bool) noexcept; \
template bool IsGreater<C>(const C*, const C*, SizeT, SizeT, bool) noexcept; \
template bool IsEqual<C>(const C*, const C*, SizeT) noexcept; \
template SizeT Hash<C>(const C*, SizeT) noexcept; \
template SizeT Count<C, SizeT>(const C*) noexcept; \
template void TrimLeft<C,SizeT>(const C*, SizeT&, const SizeT) noexcept; \
template void TrimRight<C,SizeT>(const C*, const SizeT, SizeT&) noexcept; \
template void Trim<C,SizeT>(const C*, SizeT&, SizeT&) noexcept; \
template void ToLowerCase<C>(C*, SizeT) noexcept; \
template void EscapeHTMLSpecialChars<QV::GStream<C>, C>(QV::GStream<C>&, const C*, SizeT);
QV_INST(char)
QV_INST(char16_t)
QV_INST(char32_t)
QV_INST(wchar_t)
}}
