// headers of the json-leaf unit: JSONUtils (escape/unescape), Unicode encoders, Digit hex reader
#ifndef QV_JSON_HPP
#define QV_JSON_HPP
#include <new>
#include "Digit.hpp"
#include "Unicode.hpp"
#include "JSONUtils.hpp"
#include "qv_stream.hpp"
#endif
