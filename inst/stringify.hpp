// Value<char> stringifier instantiated with the verification stream (real template text; stream members are contracts)
#ifndef QV_STRINGIFY_HPP
#define QV_STRINGIFY_HPP
#include <new>
#include "Value.hpp"
#include "qv_stream.hpp"
#endif
