// headers of the memory/containers unit
#ifndef QV_MEMORY_HPP
#define QV_MEMORY_HPP
#include <new>
#include "Memory.hpp"
#include "StringStream.hpp"
#include "String.hpp"
#include "Array.hpp"
#endif
