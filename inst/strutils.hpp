// headers of the strutils unit (the native replay wrapper includes this file only)
#ifndef QV_STRUTILS_HPP
#define QV_STRUTILS_HPP
#include <new>
#include "StringUtils.hpp"
#include "qv_stream.hpp"
#endif
