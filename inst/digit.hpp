// headers of the number-formatting unit
#ifndef QV_DIGIT_HPP
#define QV_DIGIT_HPP
#include <new>
#include "Digit.hpp"
#include "qv_stream.hpp"
#endif
