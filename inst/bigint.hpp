// headers of the bigint unit
#ifndef QV_BIGINT_HPP
#define QV_BIGINT_HPP
#include <new>
#include "BigInt.hpp"
namespace QV {
// uses that make clang instantiate the member templates and in-class friend operators of BigInt
template <typename B, typename W, typename Wide>
inline void UseBigInt(B &b, const B &c, W n, Wide wide, bool *r) {
    r[0] = (b < n); r[1] = (b <= n); r[2] = (b > n); r[3] = (b >= n); r[4] = (b == n); r[5] = (b != n);
    r[6] = (n < b); r[7] = (n <= b); r[8] = (n > b); r[9] = (n >= b); r[10] = (n == b); r[11] = (n != b);
    b = n; b |= n; b &= n; b += n; b -= n;
    b = wide; b |= wide; b &= wide; b += wide; b -= wide;
    n = static_cast<W>(c); wide = static_cast<Wide>(c);
    B d{c}; B e{static_cast<B &&>(d)}; b = c; b = static_cast<B &&>(e); B f{n}; B g{wide};
    (void)f; (void)g;
}
}
#endif
