#include "stringify.hpp"
namespace Qentem {
template QV::GStream<char> &Value<char>::Stringify<QV::GStream<char>>(QV::GStream<char> &, SizeT32) const;
template void Value<char>::stringifyObject<QV::GStream<char>>(const Value<char>::ObjectT &, QV::GStream<char> &, SizeT32);
template void Value<char>::stringifyArray<QV::GStream<char>>(const Value<char>::ArrayT &, QV::GStream<char> &, SizeT32);
template void Value<char>::stringifyValue<QV::GStream<char>>(const Value<char> &, QV::GStream<char> &, SizeT32);
}
