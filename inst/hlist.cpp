#include "hlist.hpp"
namespace Qentem {
template struct HashTable<StringView<char>, HLItem_T<StringView<char>>>;
template struct HList<StringView<char>>;
}
