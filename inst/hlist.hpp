// headers of the hash-table unit (plain keys: StringView<char>)
#ifndef QV_HLIST_HPP
#define QV_HLIST_HPP
#include <new>
#include "StringView.hpp"
#include "HList.hpp"
#endif
