// explicit instantiation of the recursive-descent JSON parser (the instantiation JSON::Parse uses)
#include "jsonparser.hpp"
namespace Qentem {
template struct JSON::JSONParser<char, StringStream<char>>;
}
