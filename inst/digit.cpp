#include "digit.hpp"
namespace Qentem {
template SizeT Digit::IntToString<false, char, SizeT8>(char *, SizeT8) noexcept;
template SizeT Digit::IntToString<true, char, SizeT8>(char *, SizeT8) noexcept;
template SizeT Digit::IntToString<false, char, SizeT16>(char *, SizeT16) noexcept;
template SizeT Digit::IntToString<true, char, SizeT16>(char *, SizeT16) noexcept;
template SizeT Digit::IntToString<false, char, SizeT32>(char *, SizeT32) noexcept;
template SizeT Digit::IntToString<false, char, SizeT64>(char *, SizeT64) noexcept;
template SizeT Digit::IntToString<true, char, SizeT64>(char *, SizeT64) noexcept;
}
namespace Qentem {
template void Digit::realToString<double, QV::GStream<char>, SizeT64>(QV::GStream<char> &, const SizeT64, const Digit::RealFormatInfo);
}
