// explicit instantiations of the JSON leaf functions with the verification stream (real template text)
#include "json.hpp"
namespace Qentem {
#define QV_INST(C) \
template SizeT JSONUtils::UnEscape<C, QV::GStream<C>>(const C *, SizeT, QV::GStream<C> &, bool *); \
template void JSONUtils::Escape<C, QV::GStream<C>>(const C *, SizeT, QV::GStream<C> &); \
template void Unicode::ToUTF<C, QV::GStream<C>>(SizeT32, QV::GStream<C> &); \
template SizeT32 Digit::HexStringToNumber<SizeT32, C>(const C *, const SizeT) noexcept; \
template SizeT32 Digit::HexStringToNumber<SizeT32, C, SizeT>(const C *, SizeT &, const SizeT) noexcept;
QV_INST(char)
QV_INST(char16_t)
QV_INST(char32_t)
QV_INST(wchar_t)
}
namespace Qentem {
template QNumberType Digit::stringToNumber<char>(QNumber64 &, const char *, SizeT &, SizeT) noexcept;
}
