#include "bigint.hpp"
namespace Qentem {
template struct BigInt<SizeT64, 256U>;
template struct BigInt<SizeT32, 128U>;
template struct BigInt<SizeT16, 64U>;
template struct BigInt<SizeT8, 32U>;
template struct DoubleSize<SizeT8, 64U>;
template struct DoubleSize<SizeT16, 64U>;
}
template void QV::UseBigInt<Qentem::BigInt<Qentem::SizeT64, 256U>, Qentem::SizeT64, unsigned __int128>(Qentem::BigInt<Qentem::SizeT64, 256U> &, const Qentem::BigInt<Qentem::SizeT64, 256U> &, Qentem::SizeT64, unsigned __int128, bool *);
template void QV::UseBigInt<Qentem::BigInt<Qentem::SizeT32, 128U>, Qentem::SizeT32, Qentem::SizeT64>(Qentem::BigInt<Qentem::SizeT32, 128U> &, const Qentem::BigInt<Qentem::SizeT32, 128U> &, Qentem::SizeT32, Qentem::SizeT64, bool *);
template void QV::UseBigInt<Qentem::BigInt<Qentem::SizeT16, 64U>, Qentem::SizeT16, Qentem::SizeT32>(Qentem::BigInt<Qentem::SizeT16, 64U> &, const Qentem::BigInt<Qentem::SizeT16, 64U> &, Qentem::SizeT16, Qentem::SizeT32, bool *);
template void QV::UseBigInt<Qentem::BigInt<Qentem::SizeT8, 32U>, Qentem::SizeT8, Qentem::SizeT32>(Qentem::BigInt<Qentem::SizeT8, 32U> &, const Qentem::BigInt<Qentem::SizeT8, 32U> &, Qentem::SizeT8, Qentem::SizeT32, bool *);
namespace Qentem {
template struct DoubleSize<SizeT32, 64U>;
template struct DoubleSize<SizeT64, 64U>;
template struct DoubleSize<SizeT8, 8U>;
template struct DoubleSize<SizeT16, 16U>;
template struct DoubleSize<SizeT32, 32U>;
}
