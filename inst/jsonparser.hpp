// JSON parser driver: the real JSONParser<char, StringStream<char>> instantiation.
#ifndef QV_JSONPARSER_HPP
#define QV_JSONPARSER_HPP
#include <new>
#include "JSON.hpp"
#endif
