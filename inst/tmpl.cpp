#include "tmpl.hpp"
namespace Qentem {
using TC = TemplateCore<char, QV::GValue, QV::GStream<char>>;
template bool TC::evaluateExpression(QExpression &, QExpression &, const QExpression::QOperation) const noexcept;
template QExpression::QOperation TC::getOperation(const char *, SizeT &, const SizeT) noexcept;
template bool TC::isExpression(const char *, SizeT) noexcept;
template void TC::parseIfCase(const char *, SizeT &, const SizeT, SizeT &, SizeT &) noexcept;
template void TC::parseLoopAttributes(const char *, const SizeT, Tags::LoopTag &) noexcept;
template void TC::checkLoopVariable(const char *, Tags::VariableTag &, const Tags::LoopTag *) noexcept;
template void TC::renderVariable(const Tags::VariableTag &, SizeT &) const;
template void TC::renderRawVariable(const Tags::VariableTag &, SizeT &) const;
}
template struct QV::GStream<char>;
namespace Qentem {
template struct Finder<Tags::List<char>, char, SizeT>;
}
