#!/bin/sh
# builds /repo's test suite with the verification guard OFF (no hook exists in /repo) and runs it
set -e
B=$(mktemp -d /var/tmp/qx_baseline.XXXXXX)
trap 'rm -rf "$B"' EXIT
cmake -S /repo -B "$B" -G Ninja -DCMAKE_BUILD_TYPE=RelWithDebInfo >/dev/null
cmake --build "$B" -j16 >/dev/null 2>&1
ctest --test-dir "$B" -j8 --timeout 900
