#!/usr/bin/env python3
"""names.py <driver.cpp> [filter]: list qualified name + parameter list -> lowered C name"""
import sys, os
sys.path.insert(0, os.path.dirname(os.path.abspath(__file__)))
from lower import *
import run as R
ast = R.get_ast('/tmp', sys.argv[1])
lw = Lowerer(ast)
flt = sys.argv[2] if len(sys.argv) > 2 else ''
for m, n in ast.fn_def.items():
    loc = ast.loc.get(id(n), ('', 0, 0))
    if not str(loc[0]).startswith(('/repo', '/verif', R.REPO)):
        continue
    try:
        q = ast.func_qualname(n)
        if flt not in q:
            continue
        print('%s%s\n    -> %s' % (q, ast.param_sig(n), lw.fn_cname(n)))
    except LowerError as e:
        print('!!', n.get('name'), e)
