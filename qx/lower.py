#!/usr/bin/env python3
"""qx.lower -- mechanical lowering of clang's JSON AST (real Qentem instantiations) to C.

The lowering is the cfront mapping described in DESIGN.md section 3.1 and nothing
else.  Any AST node kind outside the supported list raises LowerError (the check
exits 2, "extraction-broken"); nothing is ever guessed.
"""
import json, re, subprocess, hashlib, os, sys


class LowerError(Exception):
    pass


BUILTIN = {
    'void': 'void', 'bool': '_Bool', 'char': 'char', 'signed char': 'signed char',
    'unsigned char': 'unsigned char', 'short': 'short', 'unsigned short': 'unsigned short',
    'int': 'int', 'unsigned int': 'unsigned int', 'long': 'long', 'unsigned long': 'unsigned long',
    'long long': 'long long', 'unsigned long long': 'unsigned long long',
    'float': 'float', 'double': 'double', 'long double': 'long double',
    'char16_t': 'qx_char16', 'char32_t': 'qx_char32', 'wchar_t': 'qx_wchar',
    'unsigned': 'unsigned int', 'std::nullptr_t': 'void *', 'nullptr_t': 'void *',
    '__int128': '__int128', 'unsigned __int128': 'unsigned __int128',
    'char8_t': 'unsigned char', '_Bool': '_Bool', 'qx_char16': 'qx_char16', 'qx_char32': 'qx_char32', 'qx_wchar': 'qx_wchar',
}

INT_SUFFIX = {'int': '', 'unsigned int': 'U', 'long': 'L', 'unsigned long': 'UL',
              'long long': 'LL', 'unsigned long long': 'ULL'}

OPNAMES = {
    '+': 'add', '-': 'sub', '*': 'mul', '/': 'div', '%': 'rem', '^': 'xor', '&': 'and', '|': 'or',
    '~': 'not', '!': 'lnot', '=': 'assign', '<': 'lt', '>': 'gt', '+=': 'add_assign',
    '-=': 'sub_assign', '*=': 'mul_assign', '/=': 'div_assign', '%=': 'rem_assign',
    '^=': 'xor_assign', '&=': 'and_assign', '|=': 'or_assign', '<<': 'shl', '>>': 'shr',
    '<<=': 'shl_assign', '>>=': 'shr_assign', '==': 'eq', '!=': 'ne', '<=': 'le', '>=': 'ge',
    '&&': 'land', '||': 'lor', '++': 'inc', '--': 'dec', '()': 'call', '[]': 'index', '->': 'arrow',
}

PRELUDE = r'''
/* ---- qx prelude: the C spelling of the C++ builtin types that differ ---- */
typedef unsigned short qx_char16;
typedef unsigned int   qx_char32;
typedef int            qx_wchar;
#ifndef QX_NATIVE
void *malloc(__CPROVER_size_t);
void free(void *);
#else
#include <stdlib.h>
#endif
'''


SIMD_MODELS = {
    '_mm_loadu_si128': 'static struct qx_vec16 qx__mm_loadu_si128(const struct qx_vec16 *p) { struct qx_vec16 v; v.b[0] = ((const unsigned char *)p)[0]; v.b[1] = ((const unsigned char *)p)[1]; v.b[2] = ((const unsigned char *)p)[2]; v.b[3] = ((const unsigned char *)p)[3]; v.b[4] = ((const unsigned char *)p)[4]; v.b[5] = ((const unsigned char *)p)[5]; v.b[6] = ((const unsigned char *)p)[6]; v.b[7] = ((const unsigned char *)p)[7]; v.b[8] = ((const unsigned char *)p)[8]; v.b[9] = ((const unsigned char *)p)[9]; v.b[10] = ((const unsigned char *)p)[10]; v.b[11] = ((const unsigned char *)p)[11]; v.b[12] = ((const unsigned char *)p)[12]; v.b[13] = ((const unsigned char *)p)[13]; v.b[14] = ((const unsigned char *)p)[14]; v.b[15] = ((const unsigned char *)p)[15]; return v; }',
    '_mm_storeu_si128': 'static void qx__mm_storeu_si128(struct qx_vec16 *p, struct qx_vec16 v) { ((unsigned char *)p)[0] = v.b[0]; ((unsigned char *)p)[1] = v.b[1]; ((unsigned char *)p)[2] = v.b[2]; ((unsigned char *)p)[3] = v.b[3]; ((unsigned char *)p)[4] = v.b[4]; ((unsigned char *)p)[5] = v.b[5]; ((unsigned char *)p)[6] = v.b[6]; ((unsigned char *)p)[7] = v.b[7]; ((unsigned char *)p)[8] = v.b[8]; ((unsigned char *)p)[9] = v.b[9]; ((unsigned char *)p)[10] = v.b[10]; ((unsigned char *)p)[11] = v.b[11]; ((unsigned char *)p)[12] = v.b[12]; ((unsigned char *)p)[13] = v.b[13]; ((unsigned char *)p)[14] = v.b[14]; ((unsigned char *)p)[15] = v.b[15]; }',
    '_mm_setzero_si128': 'static struct qx_vec16 qx__mm_setzero_si128(void) { struct qx_vec16 z; z.b[0] = 0; z.b[1] = 0; z.b[2] = 0; z.b[3] = 0; z.b[4] = 0; z.b[5] = 0; z.b[6] = 0; z.b[7] = 0; z.b[8] = 0; z.b[9] = 0; z.b[10] = 0; z.b[11] = 0; z.b[12] = 0; z.b[13] = 0; z.b[14] = 0; z.b[15] = 0; return z; }',
    '_mm256_loadu_si256': 'static struct qx_vec32 qx__mm256_loadu_si256(const struct qx_vec32 *p) { struct qx_vec32 v; v.b[0] = ((const unsigned char *)p)[0]; v.b[1] = ((const unsigned char *)p)[1]; v.b[2] = ((const unsigned char *)p)[2]; v.b[3] = ((const unsigned char *)p)[3]; v.b[4] = ((const unsigned char *)p)[4]; v.b[5] = ((const unsigned char *)p)[5]; v.b[6] = ((const unsigned char *)p)[6]; v.b[7] = ((const unsigned char *)p)[7]; v.b[8] = ((const unsigned char *)p)[8]; v.b[9] = ((const unsigned char *)p)[9]; v.b[10] = ((const unsigned char *)p)[10]; v.b[11] = ((const unsigned char *)p)[11]; v.b[12] = ((const unsigned char *)p)[12]; v.b[13] = ((const unsigned char *)p)[13]; v.b[14] = ((const unsigned char *)p)[14]; v.b[15] = ((const unsigned char *)p)[15]; v.b[16] = ((const unsigned char *)p)[16]; v.b[17] = ((const unsigned char *)p)[17]; v.b[18] = ((const unsigned char *)p)[18]; v.b[19] = ((const unsigned char *)p)[19]; v.b[20] = ((const unsigned char *)p)[20]; v.b[21] = ((const unsigned char *)p)[21]; v.b[22] = ((const unsigned char *)p)[22]; v.b[23] = ((const unsigned char *)p)[23]; v.b[24] = ((const unsigned char *)p)[24]; v.b[25] = ((const unsigned char *)p)[25]; v.b[26] = ((const unsigned char *)p)[26]; v.b[27] = ((const unsigned char *)p)[27]; v.b[28] = ((const unsigned char *)p)[28]; v.b[29] = ((const unsigned char *)p)[29]; v.b[30] = ((const unsigned char *)p)[30]; v.b[31] = ((const unsigned char *)p)[31]; return v; }',
    '_mm256_storeu_si256': 'static void qx__mm256_storeu_si256(struct qx_vec32 *p, struct qx_vec32 v) { ((unsigned char *)p)[0] = v.b[0]; ((unsigned char *)p)[1] = v.b[1]; ((unsigned char *)p)[2] = v.b[2]; ((unsigned char *)p)[3] = v.b[3]; ((unsigned char *)p)[4] = v.b[4]; ((unsigned char *)p)[5] = v.b[5]; ((unsigned char *)p)[6] = v.b[6]; ((unsigned char *)p)[7] = v.b[7]; ((unsigned char *)p)[8] = v.b[8]; ((unsigned char *)p)[9] = v.b[9]; ((unsigned char *)p)[10] = v.b[10]; ((unsigned char *)p)[11] = v.b[11]; ((unsigned char *)p)[12] = v.b[12]; ((unsigned char *)p)[13] = v.b[13]; ((unsigned char *)p)[14] = v.b[14]; ((unsigned char *)p)[15] = v.b[15]; ((unsigned char *)p)[16] = v.b[16]; ((unsigned char *)p)[17] = v.b[17]; ((unsigned char *)p)[18] = v.b[18]; ((unsigned char *)p)[19] = v.b[19]; ((unsigned char *)p)[20] = v.b[20]; ((unsigned char *)p)[21] = v.b[21]; ((unsigned char *)p)[22] = v.b[22]; ((unsigned char *)p)[23] = v.b[23]; ((unsigned char *)p)[24] = v.b[24]; ((unsigned char *)p)[25] = v.b[25]; ((unsigned char *)p)[26] = v.b[26]; ((unsigned char *)p)[27] = v.b[27]; ((unsigned char *)p)[28] = v.b[28]; ((unsigned char *)p)[29] = v.b[29]; ((unsigned char *)p)[30] = v.b[30]; ((unsigned char *)p)[31] = v.b[31]; }',
    '_mm256_setzero_si256': 'static struct qx_vec32 qx__mm256_setzero_si256(void) { struct qx_vec32 z; z.b[0] = 0; z.b[1] = 0; z.b[2] = 0; z.b[3] = 0; z.b[4] = 0; z.b[5] = 0; z.b[6] = 0; z.b[7] = 0; z.b[8] = 0; z.b[9] = 0; z.b[10] = 0; z.b[11] = 0; z.b[12] = 0; z.b[13] = 0; z.b[14] = 0; z.b[15] = 0; z.b[16] = 0; z.b[17] = 0; z.b[18] = 0; z.b[19] = 0; z.b[20] = 0; z.b[21] = 0; z.b[22] = 0; z.b[23] = 0; z.b[24] = 0; z.b[25] = 0; z.b[26] = 0; z.b[27] = 0; z.b[28] = 0; z.b[29] = 0; z.b[30] = 0; z.b[31] = 0; return z; }',
}


def _simd_contracts():
    out = {}
    for n, ld, st, z in ((16, '_mm_loadu_si128', '_mm_storeu_si128', '_mm_setzero_si128'), (32, '_mm256_loadu_si256', '_mm256_storeu_si256', '_mm256_setzero_si256')):
        rel = '((unsigned long long)g_k - (unsigned long long)__CPROVER_POINTER_OFFSET(p))'
        out[ld] = ('struct qx_vec%d qx_%s(const struct qx_vec%d *p)\n  __CPROVER_requires(__CPROVER_r_ok(p, %d))\n  __CPROVER_assigns()\n'
                   '  __CPROVER_ensures(%s < %d ==> __CPROVER_return_value.b[%s] == ((const unsigned char *)p)[%s]);' % (n, ld, n, n, rel, n, rel, rel))
        out[st] = ('void qx_%s(struct qx_vec%d *p, struct qx_vec%d v)\n  __CPROVER_requires(__CPROVER_w_ok(p, %d))\n  __CPROVER_assigns(__CPROVER_object_upto(p, %d))\n'
                   '  __CPROVER_ensures(%s < %d ==> ((const unsigned char *)p)[%s] == v.b[%s]);' % (st, n, n, n, n, rel, n, rel, rel))
        out[z] = ('struct qx_vec%d qx_%s(void)\n  __CPROVER_requires(1)\n  __CPROVER_assigns()\n'
                  '  __CPROVER_ensures(%s);' % (n, z, ' && '.join('__CPROVER_return_value.b[%d] == 0' % i for i in range(n))))
    return out


SIMD_CONTRACTS = _simd_contracts()


def sanitize(s):
    s = s.strip()
    if s.startswith('Qentem::'):
        s = s[len('Qentem::'):]
    s = s.replace('Qentem::', '')
    s = s.replace('::', '_').replace('<', '__').replace('>', '').replace(', ', '_').replace(',', '_')
    s = s.replace(' *', '_p').replace('*', '_p').replace(' &&', '_rr').replace(' &', '_r').replace('&', '_r')
    s = s.replace(' ', '_').replace('(', '_').replace(')', '_').replace('[', '_').replace(']', '_')
    s = s.replace('-', 'm').replace('~', 'dtor_')
    s = re.sub(r'[^A-Za-z0-9_]', '_', s)
    return s


def split_top(s, sep=','):
    """split at top-level separators (outside <> () [])"""
    out, depth, cur = [], 0, ''
    for ch in s:
        if ch in '<([':
            depth += 1
        elif ch in '>)]':
            depth -= 1
        if ch == sep and depth == 0:
            out.append(cur)
            cur = ''
        else:
            cur += ch
    if cur.strip() != '' or out:
        out.append(cur)
    return [x.strip() for x in out]


class CType:
    """parsed type: base C spelling + list of derivations applied right-to-left.
    derivs: list of ('ptr', const) | ('ref',) | ('rref',) | ('arr', N)"""

    def __init__(self, base, derivs, base_const=False, kind='scalar', rec=None):
        self.base, self.derivs, self.base_const, self.kind, self.rec = base, derivs, base_const, kind, rec

    def is_ref(self):
        return bool(self.derivs) and self.derivs[-1][0] in ('ref', 'rref')

    def is_ptr(self):
        return bool(self.derivs) and self.derivs[-1][0] == 'ptr'

    def is_array(self):
        return bool(self.derivs) and self.derivs[-1][0] == 'arr'

    def deref(self):
        return CType(self.base, self.derivs[:-1], self.base_const, self.kind, self.rec)

    def is_record(self):
        return not self.derivs and self.kind == 'record'

    def ptr_to(self):
        return CType(self.base, list(self.derivs) + [('ptr', False)], False, self.kind, self.rec)

    def decl(self, name='', keep_const=True):
        """C declarator for a variable called name"""
        d = name
        prev_ptr = True
        for dv in reversed(self.derivs):  # outermost derivation first
            pass
        # build from innermost (leftmost in list) to outermost
        # standard algorithm: process derivs from last to first
        d = name
        for dv in reversed(self.derivs):
            if dv[0] == 'ptr':
                d = '*' + (' const ' if (dv[1] and keep_const) else '') + d
            elif dv[0] in ('ref', 'rref'):
                d = '*' + d
            elif dv[0] == 'arr':
                if d.startswith('*'):
                    d = '(' + d + ')'
                d = d + '[' + str(dv[1]) + ']'
        b = ('const ' if (self.base_const and keep_const) else '') + self.base
        return (b + ' ' + d).strip()

    def cast(self):
        return self.decl('', keep_const=False)


class AST:
    def __init__(self, path_or_obj):
        if isinstance(path_or_obj, str):
            with open(path_or_obj) as f:
                self.root = json.load(f)
        else:
            self.root = path_or_obj
        self.by_id = {}
        self.parent = {}
        self.fn_def = {}       # mangledName -> definition node (with body)
        self.var_def = {}      # mangledName -> VarDecl with init
        self.typedefs = {}     # qualified name -> type dict
        self.records = {}      # printed qualified name -> record decl (definition)
        self.enums = {}        # printed qualified name -> EnumDecl
        self.loc = {}          # id(node) -> (file, line_begin, line_end)
        self._index()

    # -- location tracking: clang prints file/line only when they change
    def _index(self):
        last = {'file': None, 'line': None}

        def bare(l):
            if not isinstance(l, dict):
                return None
            for k in ('spellingLoc', 'expansionLoc'):
                if k in l:
                    r = None
                    for kk in ('spellingLoc', 'expansionLoc'):
                        if kk in l:
                            r = bare(l[kk])
                    return r
            if 'offset' not in l:
                return None
            if 'file' in l:
                last['file'] = l['file']
            if 'line' in l:
                last['line'] = l['line']
            return (last['file'], last['line'])

        stack = [(self.root, None)]
        # need document order -> recursive
        sys.setrecursionlimit(100000)

        def walk(n, par):
            if not isinstance(n, dict):
                return
            if 'inner' in n:
                # documentation comments attached to declarations are not part of the program
                n['inner'] = [c for c in n['inner'] if not (isinstance(c, dict) and str(c.get('kind', '')).endswith('Comment'))]
            if 'id' in n and 'kind' in n:
                if 'inner' in n or n['id'] not in self.by_id:
                    self.by_id[n['id']] = n
                self.parent[id(n)] = par
            b = e = None
            if 'loc' in n:
                bare(n['loc'])
            if 'range' in n:
                b = bare(n['range'].get('begin'))
                e = bare(n['range'].get('end'))
            if b:
                self.loc[id(n)] = (b[0], b[1], e[1] if e else b[1])
            k = n.get('kind')
            if k in ('FunctionDecl', 'CXXMethodDecl', 'CXXConstructorDecl', 'CXXDestructorDecl', 'CXXConversionDecl'):
                if any(c.get('kind') == 'CompoundStmt' for c in n.get('inner', [])) and 'mangledName' in n:
                    self.fn_def.setdefault(n['mangledName'], n)
            elif k == 'VarDecl' and 'mangledName' in n and 'init' in n:
                self.var_def.setdefault(n['mangledName'], n)
            for c in n.get('inner', []):
                walk(c, n)

        walk(self.root, None)
        # second pass: names (needs parents)
        self._recs, self._enums = [], []
        for n in list(self.by_id.values()):
            k = n.get('kind')
            if k in ('TypedefDecl', 'TypeAliasDecl') and 'name' in n:
                self.typedefs.setdefault(self.qualname(n), n['type'])
            elif k in ('CXXRecordDecl', 'ClassTemplateSpecializationDecl', 'ClassTemplatePartialSpecializationDecl'):
                if n.get('completeDefinition') and 'name' in n and k != 'ClassTemplatePartialSpecializationDecl':
                    p = self.parent.get(id(n))
                    if k == 'CXXRecordDecl' and p is not None and p.get('kind') == 'ClassTemplateDecl':
                        continue  # the pattern, not an instantiation
                    self._recs.append(n)
            elif k == 'EnumDecl' and 'name' in n:
                self._enums.append(n)
        self._rec_raw = set()
        for n in self._recs:
            try:
                self._rec_raw.add(norm_tname(self.qualname(n)))
            except LowerError:
                pass
        for n in self._recs:
            self.records.setdefault(self.canon(self.qualname(n)), n)
        for n in self._enums:
            self.enums.setdefault(self.canon(self.qualname(n)), n)

    def canon(self, s):
        """canonical spelling of a type / qualified name: typedefs resolved inside template
        argument lists, integer literal suffixes dropped"""
        s = norm_tname(s)
        if '<' not in s:
            return s
        i = s.find('<')
        depth = 0
        j = None
        for k in range(i, len(s)):
            if s[k] == '<':
                depth += 1
            elif s[k] == '>':
                depth -= 1
                if depth == 0:
                    j = k
                    break
        if j is None:
            return s
        args = split_top(s[i + 1:j])
        cargs = [self.canon_arg(a) for a in args]
        return s[:i] + '<' + ', '.join(cargs) + '>' + self.canon(s[j + 1:]) if '<' in s[j + 1:] else s[:i] + '<' + ', '.join(cargs) + '>' + s[j + 1:]

    def canon_arg(self, a):
        a = a.strip()
        m = re.fullmatch(r'(-?\d+)[uUlL]*', a)
        if m:
            return m.group(1)
        if a in ('true', 'false'):
            return a
        # type argument: peel cv and derivations textually
        pre = ''
        while a.startswith('const '):
            pre += 'const '
            a = a[6:]
        suf = ''
        while a and a[-1] in '*&' or a.endswith(' const'):
            if a.endswith(' const'):
                suf = ' const' + suf
                a = a[:-6]
            else:
                suf = a[-1] + suf
                a = a[:-1].rstrip()
        a = self.canon(a)
        raw = getattr(self, '_rec_raw', None)
        if raw is not None and a not in BUILTIN and a not in self.typedefs and a not in raw and not a.startswith('Qentem::') and not a.startswith('QV::'):
            # a class name spelled relative to an enclosing namespace: qualify it when that is unambiguous
            c = [r for r in raw if r.endswith('::' + a)]
            if len(c) == 1:
                a = c[0]
        seen = 0
        while a in self.typedefs and seen < 20:
            t = self.typedefs[a]
            a = norm_tname(t.get('desugaredQualType') or t.get('qualType'))
            a = self.canon(a)
            seen += 1
        if suf and not suf.startswith(' '):
            suf = ' ' + suf
        return pre + a + suf

    def targs(self, n):
        out = []
        for c in n.get('inner', []):
            if c.get('kind') == 'TemplateArgument':
                if 'type' in c:
                    out.append(c['type'].get('qualType'))
                elif 'value' in c:
                    out.append(str(c['value']))
                elif 'isPack' in c or c.get('isPack'):
                    raise LowerError('template argument pack')
                elif 'decl' in c:
                    out.append(c['decl'].get('name', '?'))
                else:
                    # expression argument: try the evaluated literal below it
                    lit = self._find_literal(c)
                    if lit is None:
                        raise LowerError('unsupported template argument %r' % (list(c.keys()),))
                    out.append(lit)
        return out

    def _find_literal(self, n):
        if n.get('kind') in ('IntegerLiteral',):
            return str(n['value'])
        if n.get('kind') == 'ConstantExpr' and 'value' in n:
            return str(n['value'])
        if n.get('kind') == 'CXXBoolLiteralExpr':
            return 'true' if n['value'] else 'false'
        for c in n.get('inner', []):
            r = self._find_literal(c)
            if r is not None:
                return r
        return None

    def own_name(self, n):
        k = n.get('kind')
        nm = n.get('name', '')
        if k in ('ClassTemplateSpecializationDecl',):
            nm = nm + '<' + ', '.join(self.targs(n)) + '>'
        return nm

    def context_chain(self, n):
        chain = []
        p = n
        while True:
            if 'parentDeclContextId' in p and self.by_id.get(p['parentDeclContextId']) is not None:
                p = self.by_id.get(p['parentDeclContextId'])
            else:
                p = self.parent.get(id(p))
            if p is None:
                break
            k = p.get('kind')
            if k in ('NamespaceDecl', 'CXXRecordDecl', 'ClassTemplateSpecializationDecl', 'EnumDecl'):
                if p.get('name'):
                    chain.append(self.own_name(p))
            elif k in ('FunctionDecl', 'CXXMethodDecl', 'CXXConstructorDecl'):
                chain.append(self.func_qual_leaf(p))
        return list(reversed(chain))

    def qualname(self, n):
        return '::'.join(self.context_chain(n) + [self.own_name(n)])

    def func_qual_leaf(self, n):
        nm = n.get('name', '')
        ta = self.targs(n)
        if ta:
            nm += '<' + ', '.join(ta) + '>'
        return nm

    def func_qualname(self, n):
        return '::'.join(self.context_chain(n) + [self.func_qual_leaf(n)])

    def param_sig(self, n):
        ps = [c['type'].get('desugaredQualType') or c['type']['qualType'] for c in n.get('inner', []) if c.get('kind') == 'ParmVarDecl']
        return '(' + ', '.join(self.canon_arg(p) for p in ps) + ')'

    def find_functions(self, qual):
        """all function definitions whose qualified name (with template args) equals qual;
        qual may carry a parameter list "name(T1, T2)" to select one overload"""
        res = []
        want_sig = None
        if qual.rstrip().endswith(')') and '(' in qual and not qual.rstrip().endswith('operator()'):
            i = qual.rfind('(')
            # "operator()" itself contains parentheses
            want_sig = '(' + ', '.join(self.canon_arg(a) for a in split_top(qual[i + 1:qual.rstrip().rfind(')')])) + ')'
            qual = qual[:i].strip()
        cq = self.canon(qual)
        for m, n in self.fn_def.items():
            try:
                if self.canon(self.func_qualname(n)) == cq:
                    if want_sig is None or self.param_sig(n) == want_sig:
                        res.append(n)
            except LowerError:
                continue
        return res


def norm_tname(s):
    return re.sub(r'\s+', ' ', s).strip()


class Lowerer:
    def __init__(self, ast, line_directives=False):
        self.ast = ast
        self.line_directives = line_directives
        self.out_types = []      # emitted struct/union text, in order
        self.type_done = {}      # record qualname -> C tag name
        self.type_inprogress = set()
        self.fn_names = {}       # mangled -> C name
        self.fn_queue = []       # mangled names to emit
        self.fn_done = {}        # mangled -> text
        self.fn_proto = {}       # mangled -> prototype text
        self.fn_info = {}        # cname -> dict(info)
        self.glob_done = {}      # mangled -> text
        self.glob_names = {}
        self.glob_order = []
        self.cuts = set()        # C names not to emit bodies for
        self.type_pending = []
        self.type_defer = 0
        self.cut_qual = ()       # qualified-name prefixes not to emit bodies for (object code behind a contract)
        self.specs = {}          # cname -> spec dict (contracts)
        self.local_alias = {}
        self.cur = None          # current function context
        self.extra_fns = []      # lambda helper functions text
        self.used_names = {}
        self.tmp_counter = 0
        self.need_vec = set()
        self.intrinsics = set()

    # ------------------------------------------------------------------ types
    def resolve_named(self, name):
        """name without cv/derivations -> (cbase, kind, recnode)"""
        name = norm_tname(name)
        for pre in ('struct ', 'class ', 'union ', 'enum '):
            if name.startswith(pre):
                name = name[len(pre):]
        name = self.ast.canon(name)
        if name in BUILTIN:
            return BUILTIN[name], 'scalar', None
        if re.fullmatch(r'qx_vec\d+', name):
            return 'struct ' + name, 'record', None
        if name in self.local_alias:
            t = self.ctype(self.local_alias[name])
            return t
        if '::' in name and name.rsplit('::', 1)[-1] in self.local_alias and '(' in name:
            # a function-local type spelled with its enclosing function
            return self.ctype(self.local_alias[name.rsplit('::', 1)[-1]])
        if name in self.ast.records:
            return self.record_tag(name), 'record', self.ast.records[name]
        if name in self.ast.enums:
            e = self.ast.enums[name]
            ut = e.get('fixedUnderlyingType', {}).get('desugaredQualType') or e.get('fixedUnderlyingType', {}).get('qualType') or 'int'
            t = self.ctype({'qualType': ut})
            return t
        if name in self.ast.typedefs:
            return self.ctype(self.ast.typedefs[name])
        # unqualified lookup fallbacks: try suffix match among typedefs/records (unique)
        cands = [k for k in self.ast.records if k.endswith('::' + name)]
        if len(cands) == 1:
            return self.record_tag(cands[0]), 'record', self.ast.records[cands[0]]
        cands = [k for k in self.ast.typedefs if k.endswith('::' + name)]
        if len(cands) == 1:
            return self.ctype(self.ast.typedefs[cands[0]])
        cands = [k for k in self.ast.enums if k.endswith('::' + name)]
        if len(cands) == 1:
            return self.resolve_named(cands[0])
        raise LowerError('unknown type name %r' % name)

    def ctype(self, t):
        """t: clang type dict or string -> CType"""
        if isinstance(t, CType):
            return t
        s = t if isinstance(t, str) else (t.get('desugaredQualType') or t.get('qualType'))
        s = norm_tname(s)
        mv = re.search(r'__attribute__\(\(__vector_size__\((\d+) \* sizeof\(([a-z ]+)\)\)\)\) ([a-z ]+)', s)
        if mv:
            nbytes = int(mv.group(1)) * {'long long': 8, 'char': 1, 'short': 2, 'int': 4, 'float': 4, 'double': 8}[mv.group(2)]
            self.need_vec.add(nbytes)
            s = s.replace(mv.group(0), 'qx_vec%d' % nbytes)
        if re.search(r'\(\*\)\s*\(', s) or re.search(r'\(\*const\)\s*\(', s):
            # pointer to function: represented as an opaque code pointer (only identity comparisons and pass-through are supported)
            return CType('void', [('ptr', False)], False, 'scalar', None)
        if '(' in s and not re.search(r'\(\*\)|\(&\)', s) and ')' in s and not s.endswith(']'):
            # function type or function pointer: only void* representation is supported
            raise LowerError('function type %r' % s)
        derivs = []
        # peel derivations from the right
        while True:
            s = s.strip()
            if s.endswith('*const') or s.endswith('* const'):
                s = s[:s.rfind('*')]
                derivs.append(('ptr', True))
            elif s.endswith('*'):
                s = s[:-1]
                derivs.append(('ptr', False))
            elif s.endswith('&&'):
                s = s[:-2]
                derivs.append(('rref',))
            elif s.endswith('&'):
                s = s[:-1]
                derivs.append(('ref',))
            elif s.endswith(']'):
                i = s.rfind('[')
                n = s[i + 1:-1]
                s = s[:i]
                derivs.append(('arr', n))
            elif s.endswith(' const') and not s.endswith('> const') is False:
                s = s[:-6]
                derivs.append(('constmark',))
            elif s.endswith(' const'):
                s = s[:-6]
                derivs.append(('constmark',))
            elif s.endswith(' volatile'):
                s = s[:-9]
            elif s.endswith('(*)') or s.endswith('(&)'):
                raise LowerError('pointer/reference to array or function: %r' % s)
            else:
                break
        # arrays: clang prints T[2][3] left to right; we peeled right to left, fine for 1-D
        base_const = False
        while True:
            if s.startswith('const '):
                base_const = True
                s = s[6:]
            elif s.startswith('volatile '):
                s = s[9:]
            else:
                break
        # constmark directly after base means const base
        derivs.reverse()
        clean = []
        for i, d in enumerate(derivs):
            if d[0] == 'constmark':
                if not clean:
                    base_const = True
                elif clean[-1][0] == 'ptr':
                    clean[-1] = ('ptr', True)
            else:
                clean.append(d)
        r = self.resolve_named(s)
        if isinstance(r, CType):
            # typedef to derived type
            return CType(r.base, r.derivs + clean, r.base_const or base_const, r.kind, r.rec)
        base, kind, rec = r
        return CType(base, clean, base_const, kind, rec)

    def record_tag(self, qual):
        if qual in self.type_done:
            return self.type_done[qual]
        n = self.ast.records[qual]
        tagkind = 'union' if n.get('tagUsed') == 'union' else 'struct'
        tag = tagkind + ' ' + sanitize(qual)
        self.type_done[qual] = tag
        if qual in self.type_inprogress:
            return tag
        if getattr(self, 'type_defer', 0) > 0:
            # reached only through a pointer field of a record being emitted: a forward declaration is enough there, the body
            # follows once that record is complete (a record that embeds the other by value must come second)
            self.type_done.pop(qual)
            if qual not in self.type_pending:
                self.type_pending.append(qual)
                self.out_types.append('%s;' % tag)
            return tag
        self.type_inprogress.add(qual)
        body = self.record_body(n)
        self.out_types.append('%s %s;' % (tag, body))
        self.type_inprogress.discard(qual)
        if not self.type_inprogress:
            while self.type_pending:
                q = self.type_pending.pop(0)
                if q not in self.type_done:
                    self.record_tag(q)
        return tag

    def record_body(self, n):
        lines = []
        if n.get('bases'):
            for i, b in enumerate(n['bases']):
                bt = self.ctype(b['type'])
                lines.append('  %s;' % bt.decl('qx_base%d' % i if i else 'qx_base'))
        inner = n.get('inner', [])
        anon = {}
        for c in inner:
            k = c.get('kind')
            if k == 'CXXRecordDecl' and not c.get('name') and c.get('completeDefinition'):
                anon[c['id']] = c
        pending_anon = list(anon.values())
        for c in inner:
            k = c.get('kind')
            if k == 'FieldDecl':
                if not c.get('name'):
                    # anonymous struct/union member
                    a = pending_anon.pop(0) if pending_anon else None
                    if a is None:
                        raise LowerError('anonymous field without record')
                    kind = 'union' if a.get('tagUsed') == 'union' else 'struct'
                    lines.append('  %s %s;' % (kind, self.record_body(a).replace('\n', '\n  ')))
                    continue
                qt = c['type'].get('desugaredQualType') or c['type'].get('qualType', '')
                through_ptr = qt.rstrip().endswith(('*', '&', '*const', '* const')) and '(' not in qt
                if through_ptr:
                    self.type_defer = getattr(self, 'type_defer', 0) + 1
                try:
                    t = self.ctype(c['type'])
                finally:
                    if through_ptr:
                        self.type_defer -= 1
                d = t.decl(c['name'], keep_const=False)
                if c.get('isBitfield'):
                    w = self.ast._find_literal(c)
                    d += ' : ' + str(w)
                lines.append('  %s;' % d)
        if not lines:
            lines.append('  char qx_empty;')
        return '{\n' + '\n'.join(lines) + '\n}'

    # ------------------------------------------------------------------ names
    def fn_cname(self, n):
        m = n['mangledName']
        if m in self.fn_names:
            return self.fn_names[m]
        ast = self.ast
        k = n.get('kind')
        chain = ast.context_chain(n)
        leaf = n.get('name', '')
        if k == 'CXXConstructorDecl':
            leaf = 'ctor'
        elif k == 'CXXDestructorDecl':
            leaf = 'dtor'
        elif k == 'CXXConversionDecl':
            leaf = 'conv_' + sanitize(leaf[len('operator '):])
        elif leaf.startswith('operator'):
            op = leaf[len('operator'):].strip()
            leaf = 'op_' + OPNAMES.get(op, sanitize(op))
        ta = ast.targs(n)
        base = sanitize('::'.join(chain + [leaf])) + (('__' + '_'.join(sanitize(x) for x in ta)) if ta else '')
        # overload disambiguation among lexical siblings
        par = ast.parent.get(id(n))
        if par is not None and par.get('kind') == 'FunctionTemplateDecl':
            par = ast.parent.get(id(par))
        sibs = 0
        if par is not None:
            for c in par.get('inner', []):
                if c.get('kind') in ('FunctionDecl', 'CXXMethodDecl', 'CXXConstructorDecl', 'FunctionTemplateDecl',
                                     'CXXConversionDecl', 'FriendDecl'):
                    cc = c
                    if c.get('kind') == 'FriendDecl':
                        cc = (c.get('inner') or [{}])[0]
                    if cc.get('name') == n.get('name') and not cc.get('isImplicit'):
                        sibs += 1
        if sibs > 1 or k == 'CXXConstructorDecl' or (leaf.startswith('op_') and k == 'FunctionDecl'):
            ps = [self.ast.canon_arg(c['type'].get('desugaredQualType') or c['type']['qualType']) for c in n.get('inner', []) if c.get('kind') == 'ParmVarDecl']
            cq = ''
            if n.get('type', {}).get('qualType', '').rstrip().endswith('const noexcept') or re.search(r'\) const', n.get('type', {}).get('qualType', '')):
                cq = '_c'
            base = base + '__' + '_'.join(sanitize(p) for p in ps) + cq if ps else base + '__void' + cq
        # final uniqueness
        cname = base
        if cname in self.used_names and self.used_names[cname] != m:
            raise LowerError('lowered name collision: %s (%s vs %s)' % (cname, m, self.used_names[cname]))
        self.used_names[cname] = m
        self.fn_names[m] = cname
        return cname

    def glob_cname(self, n):
        m = n['mangledName']
        if m in self.glob_names:
            return self.glob_names[m]
        nm = 'g_' + sanitize(self.ast.qualname(n))
        self.glob_names[m] = nm
        return nm

    # ------------------------------------------------------------------ functions
    def is_method(self, n):
        return n.get('kind') in ('CXXMethodDecl', 'CXXConstructorDecl', 'CXXDestructorDecl', 'CXXConversionDecl') \
            and n.get('storageClass') != 'static'

    def class_of(self, n):
        p = self.ast.parent.get(id(n))
        if p is not None and p.get('kind') == 'FunctionTemplateDecl':
            p = self.ast.parent.get(id(p))
        return p

    def fn_signature(self, n):
        """returns (cname, ret CType, [(pname, CType, isref)], is_method)"""
        cname = self.fn_cname(n)
        ft = n['type']['qualType']
        params = []
        if self.is_method(n):
            cls = self.class_of(n)
            ct = self.ctype(self.ast.qualname(cls))
            params.append(('self', CType(ct.base, [('ptr', False)], False, 'record', ct.rec), False))
        i = 0
        for c in n.get('inner', []):
            if c.get('kind') == 'ParmVarDecl':
                t = self.ctype(c['type'])
                nm = c.get('name') or ('qx_unnamed%d' % i)
                params.append((nm, t, t.is_ref()))
                i += 1
        # return type: text before first '(' at depth 0 in function type
        if n.get('kind') in ('CXXConstructorDecl', 'CXXDestructorDecl'):
            ret = self.ctype('void')
        else:
            ret = self.ctype(self.ret_type_str(n))
        return cname, ret, params

    def ret_type_str(self, n):
        ft = n['type'].get('desugaredQualType') or n['type']['qualType']
        if ft.startswith('auto (') and '->' in ft:
            return ft.rsplit('->', 1)[1].strip()
        depth = 0
        for i, ch in enumerate(ft):
            if ch in '<[':
                depth += 1
            elif ch in '>]':
                depth -= 1
            elif ch == '(' and depth == 0:
                return ft[:i].strip()
        raise LowerError('cannot parse function type %r' % ft)

    def proto(self, n):
        cname, ret, params = self.fn_signature(n)
        ps = ', '.join(t.decl(nm, keep_const=False) if not t.is_ptr() and not t.is_ref() else t.decl(nm) for nm, t, r in params) or 'void'
        if ret.is_ref():
            rs = ret.decl('')
        else:
            rs = ret.decl('', keep_const=False)
        return '%s %s(%s)' % (rs, cname, ps)

    def request_fn(self, n):
        """n: a function decl reference target (may be a declaration); returns cname"""
        m = n.get('mangledName')
        d = self.ast.fn_def.get(m)
        if d is None:
            full = self.ast.by_id.get(n['id'], n)
            d = full
        cname = self.fn_cname(d)
        if m not in self.fn_done and m not in self.fn_queue:
            self.fn_queue.append(m)
            self.fn_decl_node = getattr(self, 'fn_decl_node', {})
            self.fn_decl_node[m] = d
        rn = getattr(self, 'call_rename', None)
        if rn and isinstance(self.cur, dict) and self.cur.get('cname') in rn:
            # calls from this function to a recursive callee go to a renamed callee: a contract stub in the bounded counterexample
            # search, a prototype of the same signature carrying the callee form of the contract in the proof
            newn = rn[self.cur['cname']].get(cname, cname)
            if newn != cname and newn not in self.fn_info and not getattr(self, 'no_contracts', False):
                proto = self.proto(d)
                _, ret, params = self.fn_signature(d)
                loc = self.ast.loc.get(id(d), ('?', 0, 0))
                self.fn_info[newn] = {'cname': newn, 'qualname': self.ast.func_qualname(d), 'mangled': m, 'file': loc[0], 'lines': [loc[1], loc[2]], 'ret': ret,
                                      'params': params, 'kind': d.get('kind'), 'is_method': self.is_method(d), 'loops': 0, 'has_body': False,
                                      'ret_is_ref': ret.is_ref(), 'node': d, 'renamed_from': cname}
                self.extra_fns.append(proto.replace(cname + '(', newn + '(', 1) + self.contract_text(newn, self.specs.get(newn, {})) + ';')
            return newn
        return cname

    def lower_all(self):
        while self.fn_queue:
            m = self.fn_queue.pop(0)
            if m in self.fn_done:
                continue
            d = self.fn_decl_node[m]
            self.lower_function(d)

    def lower_function(self, n):
        m = n['mangledName']
        cname = self.fn_cname(n)
        proto = self.proto(n)
        self.fn_proto[m] = proto
        _, ret, params = self.fn_signature(n)
        loc = self.ast.loc.get(id(n), ('?', 0, 0))
        info = {'cname': cname, 'qualname': self.ast.func_qualname(n), 'mangled': m,
                'file': loc[0], 'lines': [loc[1], loc[2]], 'ret': ret, 'params': params,
                'kind': n.get('kind'), 'is_method': self.is_method(n), 'loops': 0, 'has_body': False,
                'ret_is_ref': ret.is_ref(), 'node': n}
        self.fn_info[cname] = info
        body = None
        for c in n.get('inner', []):
            if c.get('kind') == 'CompoundStmt':
                body = c
        spec = self.specs.get(cname, {})
        if body is not None and cname not in self.cuts and any(info['qualname'].startswith(q) for q in self.cut_qual) and \
                not any(info['qualname'].startswith(q) for q in getattr(self, 'uncut_qual', ())):
            self.cuts.add(cname)
        if cname in self.cuts or body is None:
            if body is None and cname not in self.cuts and not spec.get('extern_ok') and not info['qualname'].startswith('QV::'):
                if n.get('explicitlyDefaulted') or n.get('isImplicit'):
                    pass
                else:
                    raise LowerError('function %s (%s) has no body in the AST and is not cut' % (cname, info['qualname']))
            self.fn_done[m] = proto + self.contract_text(cname, spec) + ';\n'
            return
        info['has_body'] = True
        ctx = {'node': n, 'ret': ret, 'cname': cname, 'loop_ix': 0, 'spec': spec, 'locals': {}, 'info': info, 'temps': []}
        saved = self.cur, self.local_alias
        self.cur = ctx
        self.local_alias = dict(self.local_alias)
        try:
            pre = []
            if n.get('kind') == 'CXXConstructorDecl':
                pre = self.ctor_inits(n)
            text = self.stmt(body, 0, pre=pre)
            if spec.get('ghost_returns') and ret.base == 'void' and not ret.derivs:
                i = text.rstrip().rfind('}')
                text = text[:i] + '  /* ghost */ ' + ' '.join(g.rstrip(';') + ';' for g in spec['ghost_returns']) + '\n}\n'
            if ctx['temps']:
                i = text.index('{')
                text = text[:i + 1] + '\n  /* hoisted temporaries */ ' + ' '.join(ctx['temps']) + text[i + 1:]
        finally:
            self.cur, self.local_alias = saved
        info['loops'] = ctx['loop_ix']
        info['loop_map'] = ctx.get('loop_map', {})
        nl = len(spec.get('loops') or {})
        if spec.get('loops') is not None and nl and nl != ctx['loop_ix'] and not spec.get('loops_partial'):
            raise LowerError('%s: spec has %d loop contracts, function has %d loops' % (cname, nl, ctx['loop_ix']))
        h = hashlib.sha256(json.dumps(self.strip_ids(body), sort_keys=True).encode()).hexdigest()[:16]
        info['hash'] = h
        head = '/* %s  [%s:%s-%s] ast-sha256:%s */\n' % (info['qualname'], os.path.basename(str(loc[0])), loc[1], loc[2], h)
        self.fn_done[m] = head + proto + self.contract_text(cname, spec) + '\n' + text + '\n'

    def strip_ids(self, n):
        if isinstance(n, dict):
            return {k: self.strip_ids(v) for k, v in n.items() if k not in ('id', 'loc', 'range', 'referencedDecl', 'typeAliasDeclId', 'referencedMemberDecl', 'foundReferencedDecl')} | (
                {'ref': n['referencedDecl'].get('name')} if 'referencedDecl' in n else {})
        if isinstance(n, list):
            return [self.strip_ids(x) for x in n]
        return n

    def contract_text(self, cname, spec):
        t = ''
        if getattr(self, 'no_contracts', False):
            return t
        if cname in self.specs:
            if not spec.get('requires'):
                t += '\n  __CPROVER_requires(1)'
            if not spec.get('ensures'):
                t += '\n  __CPROVER_ensures(1)'
        for k, kw in (('requires', '__CPROVER_requires'), ('ensures', '__CPROVER_ensures')):
            for c in spec.get(k, []):
                t += '\n  %s(%s)' % (kw, c)
        if 'assigns' in spec:
            for c in (spec['assigns'] or ['']):
                t += '\n  __CPROVER_assigns(%s)' % c
        for c in spec.get('frees', []):
            t += '\n  __CPROVER_frees(%s)' % c
        return t

    def ctor_inits(self, n):
        out = []
        cls = self.class_of(n)
        inited = set()
        for c in n.get('inner', []):
            if c.get('kind') == 'CXXCtorInitializer':
                if 'anyInit' in c:
                    fld = c['anyInit']
                    inited.add(fld['name'])
                    e = c['inner'][0]
                    if e.get('kind') == 'CXXDefaultInitExpr':
                        # implicit use of the in-class initialiser: take the expression from the field declaration
                        fd = [f for f in cls.get('inner', []) if f.get('kind') == 'FieldDecl' and f.get('name') == fld['name']]
                        if not fd:
                            # member of an anonymous union/struct of the class
                            for sub in cls.get('inner', []):
                                if sub.get('kind') == 'CXXRecordDecl' and not sub.get('name'):
                                    fd += [f for f in sub.get('inner', []) if f.get('kind') == 'FieldDecl' and f.get('name') == fld['name']]
                        if not fd or not fd[0].get('inner'):
                            raise LowerError('default member initialiser of %s not found' % fld['name'])
                        e = fd[0]['inner'][-1]
                    out.append(self.init_assign('self->' + fld['name'], self.ctype(fld['type']), e))
                elif 'baseInit' in c:
                    e = c['inner'][0]
                    out.append(self.init_assign('self->qx_base', self.ctype(c['baseInit']), e))
                else:
                    raise LowerError('ctor initializer form %r' % list(c.keys()))
        # NSDMI for fields not explicitly initialised
        pre = []
        for f in cls.get('inner', []):
            if f.get('kind') == 'FieldDecl' and f.get('name') and f['name'] not in inited and f.get('hasInClassInitializer'):
                e = [x for x in f.get('inner', []) if 'kind' in x and x['kind'] != 'ConstantExpr' or not f.get('isBitfield')]
                if cls.get('tagUsed') == 'union' and inited:
                    continue
                pre.append(self.init_assign('self->' + f['name'], self.ctype(f['type']), e[-1]))
        return pre + out

    def init_assign(self, lhs, t, e):
        """statement text initialising lvalue lhs of type t from init expr e"""
        k = e.get('kind')
        if k == 'ExprWithCleanups':
            return self.init_assign(lhs, t, e['inner'][0])
        if k == 'CXXDefaultInitExpr':
            raise LowerError('CXXDefaultInitExpr in init')
        if t.is_array():
            if k == 'InitListExpr':
                n = int(t.derivs[-1][1])
                elems = [c for c in e.get('inner', []) if c.get('kind') != 'array_filler']
                filler = e.get('array_filler')
                if filler is not None:
                    # clang JSON: array_filler list: [ImplicitValueInitExpr, explicit inits...]
                    elems = [c for c in filler if c.get('kind') != 'ImplicitValueInitExpr']
                s = ''
                et = t.deref()
                for i in range(n):
                    if i < len(elems):
                        s += self.init_assign('%s[%d]' % (lhs, i), et, elems[i]) + ' '
                    else:
                        s += '%s[%d] = 0; ' % (lhs, i) if not et.is_record() else self.zero_record('%s[%d]' % (lhs, i), et)
                return s
            raise LowerError('array init from %s' % k)
        if t.is_record():
            if k == 'CXXConstructExpr':
                return self.construct_into('&(' + lhs + ')', t, e) + ';'
            if k == 'InitListExpr' and not e.get('inner'):
                return self.zero_record(lhs, t)
            if k in ('CXXFunctionalCastExpr', 'CXXBindTemporaryExpr', 'MaterializeTemporaryExpr', 'ImplicitCastExpr', 'CXXTemporaryObjectExpr') and e.get('inner') and k != 'CXXTemporaryObjectExpr':
                return self.init_assign(lhs, t, e['inner'][0])
            if k == 'CXXTemporaryObjectExpr':
                return self.construct_into('&(' + lhs + ')', t, e) + ';'
            return '%s = %s;' % (lhs, self.expr(e))
        return '%s = %s;' % (lhs, self.expr(e))

    def zero_record(self, lhs, t):
        return '__builtin_memset(&(%s), 0, sizeof(%s));' % (lhs, lhs)

    # ------------------------------------------------------------------ constructors
    def find_ctor(self, t, e):
        rec = t.rec
        want = norm_tname(e.get('ctorType', {}).get('qualType', ''))
        cands = []

        def scan(node):
            for c in node.get('inner', []):
                k = c.get('kind')
                if k == 'CXXConstructorDecl':
                    if norm_tname(c['type']['qualType']) == want:
                        cands.append(c)
                elif k == 'FunctionTemplateDecl':
                    for cc in c.get('inner', []):
                        if cc.get('kind') == 'CXXConstructorDecl' and any(x.get('kind') == 'TemplateArgument' for x in cc.get('inner', [])):
                            if norm_tname(cc['type']['qualType']) == want:
                                cands.append(cc)
        scan(rec)
        if not cands:
            raise LowerError('constructor %r not found in %s' % (want, rec.get('name')))
        # prefer one with a body / definition
        for c in cands:
            d = self.ast.fn_def.get(c.get('mangledName'))
            if d is not None:
                return d
        return cands[0]

    def ctor_is_trivial_copy(self, c):
        if not (c.get('isImplicit') or c.get('explicitlyDefaulted')):
            return False
        ps = [p for p in c.get('inner', []) if p.get('kind') == 'ParmVarDecl']
        return len(ps) == 1

    def construct_into(self, addr, t, e):
        """expression text that constructs object at addr (a pointer expression) per CXXConstructExpr e"""
        ctor = self.find_ctor(t, e)
        args = [a for a in e.get('inner', [])]
        ps = [p for p in ctor.get('inner', []) if p.get('kind') == 'ParmVarDecl']
        if ctor.get('isImplicit') or ctor.get('explicitlyDefaulted'):
            if len(ps) == 0:
                # defaulted default ctor: apply NSDMIs
                return self.default_init(addr, t)
            if len(ps) == 1:
                return '(*(%s) = %s)' % (addr, self.expr(args[0]))
        cname = self.request_fn(ctor)
        return '%s(%s)' % (cname, ', '.join([addr] + self.call_args(ctor, args)))

    def default_init(self, addr, t):
        rec = t.rec
        parts = []
        is_union = rec.get('tagUsed') == 'union'
        for i, b in enumerate(rec.get('bases') or []):
            # base sub-objects: a defaulted/implicit default constructor applies the base's own initialisers,
            # a user-provided one is called
            bt = self.ctype(b['type'])
            baddr = '&(%s)->%s' % (addr, 'qx_base%d' % i if i else 'qx_base')
            dctor = None
            for c in (bt.rec or {}).get('inner', []):
                if c.get('kind') == 'CXXConstructorDecl' and not [p for p in c.get('inner', []) if p.get('kind') == 'ParmVarDecl']:
                    dctor = self.ast.fn_def.get(c.get('mangledName')) or c
            if dctor is None or dctor.get('isImplicit') or dctor.get('explicitlyDefaulted'):
                parts.append(self.default_init(baddr, bt) + ';')
            else:
                parts.append('%s(%s);' % (self.request_fn(dctor), baddr))
        for f in rec.get('inner', []):
            if f.get('kind') == 'FieldDecl' and f.get('name') and f.get('hasInClassInitializer'):
                e = f['inner'][-1]
                ft = self.ctype(f['type'])
                s = self.init_assign('(%s)->%s' % (addr, f['name']), ft, e)
                parts.append(s)
                if is_union:
                    break
        if not parts:
            return '((void)0)'
        # expression context: use statement expression
        return '({ ' + ' '.join(parts) + ' (void)0; })'

    # ------------------------------------------------------------------ statements
    def ind(self, d):
        return '  ' * d

    def line_dir(self, n, d):
        if not self.line_directives:
            return ''
        l = self.ast.loc.get(id(n))
        if not l or not l[0]:
            return ''
        return '#line %d "%s"\n' % (l[1], l[0])

    def stmt(self, n, d, pre=None):
        k = n.get('kind')
        I = self.ind(d)
        if k == 'CompoundStmt':
            s = I + '{\n'
            for p in (pre or []):
                s += self.ind(d + 1) + p + '\n'
            for c in n.get('inner', []):
                s += self.stmt(c, d + 1)
            return s + I + '}\n'
        ld = self.line_dir(n, d)
        if k == 'DeclStmt':
            s = ''
            for c in n.get('inner', []):
                s += self.decl_local(c, d)
            return ld + s
        if k == 'ReturnStmt':
            gr = self.cur['spec'].get('ghost_returns') if self.cur.get('spec') else None
            if gr:
                # the returned expression is evaluated first (it may call and move cursors), then the ghost statements run
                gtxt = '/* ghost */ ' + ' '.join(g.rstrip(';') + ';' for g in gr)
                if not n.get('inner'):
                    return ld + I + '{ %s return; }\n' % gtxt
                e = n['inner'][0]
                rt = self.cur['ret']
                if rt.is_ref():
                    return ld + I + '{ %s = &(%s); %s return qx_rv; }\n' % (rt.decl('qx_rv', keep_const=False), self.expr(e), gtxt)
                if rt.is_record():
                    return ld + I + '{ %s; %s %s return qx_ret; }\n' % (rt.decl('qx_ret', keep_const=False), self.init_assign('qx_ret', rt, e), gtxt)
                return ld + I + '{ %s = %s; %s return qx_rv; }\n' % (rt.decl('qx_rv', keep_const=False), self.expr(e), gtxt)
            if not n.get('inner'):
                return ld + I + 'return;\n'
            e = n['inner'][0]
            if self.cur['ret'].is_ref():
                return ld + I + 'return &(%s);\n' % self.expr(e)
            if self.cur['ret'].is_record():
                return ld + I + '{ %s; %s return qx_ret; }\n' % (self.cur['ret'].decl('qx_ret', keep_const=False), self.init_assign('qx_ret', self.cur['ret'], e))
            return ld + I + 'return %s;\n' % self.expr(e)
        if k == 'IfStmt':
            inner = n['inner']
            idx = 0
            s = ''
            if n.get('hasInit'):
                raise LowerError('if with init statement')
            if n.get('hasVar'):
                raise LowerError('if with condition variable')
            cond, then = inner[0], inner[1]
            els = inner[2] if len(inner) > 2 else None
            if n.get('isConstexpr'):
                v = self.const_eval(cond)
                if v is None:
                    raise LowerError('cannot evaluate if-constexpr condition')
                if v:
                    return self.stmt_block(then, d)
                return self.stmt_block(els, d) if els is not None else ''
            s = ld + I + 'if (%s)\n' % self.expr(cond) + self.stmt_block(then, d)
            if els is not None:
                s += I + 'else\n' + self.stmt_block(els, d)
            return s
        if k == 'WhileStmt':
            cond, body = n['inner'][0], n['inner'][1]
            my_ix = self.cur['loop_ix']
            lc = self.loop_contract(d)
            txt = ld + I + 'while (%s)\n%s' % (self.expr(cond), lc) + self.stmt_block(body, d)
            self.loop_closed(my_ix)
            return txt
        if k == 'DoStmt':
            body, cond = n['inner'][0], n['inner'][1]
            my_ix = self.cur['loop_ix']
            lc = self.loop_contract(d)
            txt = ld + I + 'do\n' + lc + self.stmt_block(body, d) + I + 'while (%s);\n' % self.expr(cond)
            self.loop_closed(my_ix)
            return txt
        if k == 'ForStmt':
            init, condvar, cond, inc, body = n['inner']
            lcpos = self.cur['loop_ix']
            s = ld + I + '{\n'
            if init and init.get('kind'):
                s += self.stmt(init, d + 1)
            lc = self.loop_contract(d + 1)
            s += self.ind(d + 1) + 'for (; %s; %s)\n%s' % (self.expr(cond) if cond and cond.get('kind') else '1', self.expr(inc) if inc and inc.get('kind') else '', lc)
            s += self.stmt_block(body, d + 1) + I + '}\n'
            self.loop_closed(lcpos)
            return s
        if k == 'SwitchStmt':
            cond, body = n['inner'][0], n['inner'][1]
            return ld + I + 'switch (%s)\n' % self.expr(cond) + self.stmt_block(body, d)
        if k == 'CaseStmt':
            v = n['inner'][0]
            sub = n['inner'][-1]
            return I + 'case %s:\n' % self.case_value(v) + self.stmt(sub, d + 1)
        if k == 'DefaultStmt':
            return I + 'default:\n' + self.stmt(n['inner'][0], d + 1)
        if k == 'BreakStmt':
            return ld + I + 'break;\n'
        if k == 'ContinueStmt':
            return ld + I + 'continue;\n'
        if k == 'NullStmt':
            return I + ';\n'
        if k == 'AttributedStmt':
            return self.stmt(n['inner'][-1], d)
        # expression statement
        return ld + I + self.expr(n, stmt=True) + ';\n'

    def stmt_block(self, n, d):
        if n.get('kind') == 'CompoundStmt':
            return self.stmt(n, d)
        return self.ind(d) + '{\n' + self.stmt(n, d + 1) + self.ind(d) + '}\n'

    def loop_closed(self, ordinal):
        """CBMC numbers the loops of a function by the order of their back edges (inner loops first)"""
        m = self.cur.setdefault('loop_map', {})
        m[ordinal] = len(m)

    def loop_contract(self, d):
        ix = self.cur['loop_ix']
        self.cur['loop_ix'] += 1
        lc = (self.cur['spec'].get('loops') or {}).get(ix)
        if not lc or getattr(self, 'no_contracts', False):
            return ''
        I = self.ind(d + 1)
        s = ''
        if 'assigns' in lc:
            s += I + '__CPROVER_assigns(%s)\n' % lc['assigns']
        for inv in lc.get('invariant', []):
            s += I + '__CPROVER_loop_invariant(%s)\n' % inv
        if 'decreases' in lc:
            s += I + '__CPROVER_decreases(%s)\n' % lc['decreases']
        return s

    def case_value(self, v):
        if v.get('kind') == 'ConstantExpr' and 'value' in v:
            t = self.ctype(v['type'])
            return '((%s)%s)' % (t.cast(), self.lit_value(v['value'], t))
        cv = self.const_eval(v)
        if cv is None:
            raise LowerError('non-constant case label')
        return str(cv)

    def lit_value(self, val, t):
        s = str(val)
        if t.base in ('_Bool',):
            return '1' if s in ('true', '1') else '0'
        if s.startswith('-'):
            return '(' + s + 'LL)' if t.base in ('long', 'long long') else '(' + s + ')'
        try:
            iv = int(s)
        except ValueError:
            return s
        if iv > 0x7fffffff:
            return s + ('ULL' if iv > 0x7fffffffffffffff or 'unsigned' in t.base else 'LL')
        return s

    def decl_local(self, c, d):
        I = self.ind(d)
        k = c.get('kind')
        if k in ('TypeAliasDecl', 'TypedefDecl'):
            self.local_alias[c['name']] = c['type']
            return ''
        if k in ('StaticAssertDecl', 'UsingDecl', 'UsingDirectiveDecl'):
            return ''
        if k == 'EnumDecl':
            ut = c.get('fixedUnderlyingType') or {'qualType': 'int'}
            self.local_alias[c['name']] = ut
            return ''
        if k == 'CXXRecordDecl':
            raise LowerError('local class')
        if k != 'VarDecl':
            raise LowerError('local declaration kind %s' % k)
        t = self.ctype(c['type'])
        name = c['name']
        self.cur['locals'][c['id']] = (name, t)
        static = c.get('storageClass') == 'static'
        init = c['inner'][-1] if c.get('init') and c.get('inner') else None
        if t.is_ref():
            if init is None:
                raise LowerError('reference without init')
            return I + '%s = &(%s);\n' % (t.decl(name), self.expr(init))
        if static:
            # function-local static table
            txt = self.static_init(t, init)
            d_ = t.decl(name)
            if t.is_array() and not self._is_const_decl(t) and self.only_read_by_subscript(c):
                # never written anywhere (every use is an rvalue subscript): emit it const so that the verifier's
                # nondet-initialisation of mutable statics cannot invent other contents
                k_ = d_.index(name)
                d_ = d_[:k_] + 'const ' + d_[k_:] if t.deref().is_ptr() else 'const ' + d_
            return I + 'static %s = %s;\n' % (d_, txt)
        if t.is_array() or t.is_record():
            s = I + t.decl(name, keep_const=False) + ';\n'
            if init is not None:
                s += I + self.init_assign(name, t, init) + '\n'
            return s
        if init is None:
            return I + t.decl(name, keep_const=False) + ';\n'
        return I + '%s = %s;\n' % (t.decl(name, keep_const=False), self.expr(init))

    def _is_const_decl(self, t):
        et = t
        while et.is_array():
            et = et.deref()
        if et.is_ptr():
            return bool(et.derivs[-1][1])
        return et.base_const

    def only_read_by_subscript(self, var):
        """every reference to the local static `var` in the current function is  var[i]  used as an rvalue"""
        fn = self.cur.get('node')
        ok = [True]

        def walk(n, chain):
            if not isinstance(n, dict):
                return
            if n.get('kind') == 'DeclRefExpr' and n.get('referencedDecl', {}).get('id') == var['id']:
                c = [x for x in chain if x.get('kind') != 'ParenExpr'][-3:]
                kinds = [x.get('kind') for x in c]
                good = (len(c) == 3 and kinds[2] == 'ImplicitCastExpr' and c[2].get('castKind') == 'ArrayToPointerDecay'
                        and kinds[1] == 'ArraySubscriptExpr' and kinds[0] == 'ImplicitCastExpr' and c[0].get('castKind') == 'LValueToRValue')
                if not good:
                    ok[0] = False
            for ch in n.get('inner', []):
                walk(ch, chain + [n])
        walk(fn, [])
        return ok[0]

    def static_init(self, t, e):
        """C constant initialiser text"""
        if e is None:
            return '{0}'
        k = e.get('kind')
        if k == 'InitListExpr':
            elems = e.get('inner', [])
            if 'array_filler' in e:
                elems = [c for c in e['array_filler'] if c.get('kind') != 'ImplicitValueInitExpr']
            if t.is_array():
                et = t.deref()
                return '{' + ', '.join(self.static_init(et, x) for x in elems) + '}'
            if t.is_record():
                return '{' + ', '.join(self.static_init_field(x) for x in elems) + '}'
            if not elems:
                return '0'
            return self.static_init(t, elems[0])
        if k in ('ExprWithCleanups', 'CXXFunctionalCastExpr', 'MaterializeTemporaryExpr', 'CXXBindTemporaryExpr') and t.is_record():
            return self.static_init(t, e['inner'][0])
        if k == 'CXXConstructExpr' and t.is_record():
            raise LowerError('static object with constructor')
        v = self.const_eval(e)
        if v is not None and not t.derivs and t.kind == 'scalar' and t.base not in ('float', 'double'):
            return self.lit_value(v, t) if v >= 0 else '(%d)' % v
        # a constant that names another constant object: C wants the initialiser itself
        se = e
        while se.get('kind') in ('ImplicitCastExpr', 'ParenExpr', 'ConstantExpr') and se.get('inner'):
            se = se['inner'][-1]
        if se.get('kind') == 'DeclRefExpr' and se['referencedDecl'].get('kind') == 'VarDecl':
            full = self.ast.by_id.get(se['referencedDecl']['id'], {})
            d = self.ast.var_def.get(full.get('mangledName'), full)
            if d.get('inner') and d.get('init') and (d.get('constexpr') or 'const' in (d['type'].get('qualType') or '')):
                return self.static_init(t, d['inner'][-1])
        return self.expr(e)

    def static_init_field(self, x):
        return self.static_init(self.ctype(x['type']), x)

    # ------------------------------------------------------------------ constant evaluation (integers only)
    def const_eval(self, e):
        k = e.get('kind')
        try:
            if k == 'ConstantExpr' and 'value' in e:
                return self._ival(e['value'])
            if k == 'IntegerLiteral':
                return int(e['value'])
            if k == 'CharacterLiteral':
                return int(e['value'])
            if k == 'CXXBoolLiteralExpr':
                return 1 if e['value'] else 0
            if k in ('ParenExpr', 'ConstantExpr', 'SubstNonTypeTemplateParmExpr', 'ExprWithCleanups'):
                return self.const_eval(e['inner'][-1])
            if k in ('ImplicitCastExpr', 'CStyleCastExpr', 'CXXFunctionalCastExpr', 'CXXStaticCastExpr'):
                v = self.const_eval(e['inner'][-1])
                if v is None:
                    return None
                return self._wrap(v, self.ctype(e['type']))
            if k == 'InitListExpr':
                if not e.get('inner'):
                    return 0
                return self.const_eval(e['inner'][0])
            if k == 'UnaryExprOrTypeTraitExpr' and e.get('name') == 'sizeof':
                t = self.ctype(e['argType']) if 'argType' in e else self.ctype(e['inner'][0]['type'])
                return self.sizeof(t)
            if k == 'UnaryOperator':
                v = self.const_eval(e['inner'][0])
                if v is None:
                    return None
                op = e['opcode']
                t = self.ctype(e['type'])
                r = {'-': -v, '+': v, '~': ~v, '!': int(not v)}.get(op)
                return None if r is None else self._wrap(r, t)
            if k == 'BinaryOperator':
                a = self.const_eval(e['inner'][0])
                if a is None:
                    return None
                op = e['opcode']
                if op == '&&' and not a:
                    return 0
                if op == '||' and a:
                    return 1
                b = self.const_eval(e['inner'][1])
                if b is None:
                    return None
                t = self.ctype(e['type'])
                if op in ('/', '%') and b == 0:
                    return None
                f = {'+': lambda: a + b, '-': lambda: a - b, '*': lambda: a * b,
                     '/': lambda: abs(a) // abs(b) * (1 if (a < 0) == (b < 0) else -1),
                     '%': lambda: a - (abs(a) // abs(b) * (1 if (a < 0) == (b < 0) else -1)) * b,
                     '<<': lambda: a << b, '>>': lambda: a >> b, '&': lambda: a & b, '|': lambda: a | b, '^': lambda: a ^ b,
                     '<': lambda: int(a < b), '>': lambda: int(a > b), '<=': lambda: int(a <= b), '>=': lambda: int(a >= b),
                     '==': lambda: int(a == b), '!=': lambda: int(a != b), '&&': lambda: int(bool(a) and bool(b)),
                     '||': lambda: int(bool(a) or bool(b))}.get(op)
                if f is None:
                    return None
                return self._wrap(f(), t)
            if k == 'ConditionalOperator':
                c = self.const_eval(e['inner'][0])
                if c is None:
                    return None
                return self.const_eval(e['inner'][1] if c else e['inner'][2])
            if k == 'DeclRefExpr':
                rd = e['referencedDecl']
                if rd.get('kind') == 'EnumConstantDecl':
                    return self.enum_value(rd)
                if rd.get('kind') == 'VarDecl':
                    vd = self.ast.by_id.get(rd['id'])
                    if vd is None or not vd.get('inner'):
                        vd = self.ast.var_def.get(self.ast.by_id.get(rd['id'], {}).get('mangledName'))
                    if vd is None or not (vd.get('constexpr') or 'const ' in (vd['type'].get('desugaredQualType') or vd['type']['qualType']) + ' '):
                        return None
                    if not vd.get('inner'):
                        return None
                    t = self.ctype(vd['type'])
                    if t.derivs or t.kind != 'scalar':
                        return None
                    v = self.const_eval(vd['inner'][-1])
                    return None if v is None else self._wrap(v, t)
                return None
            if k in ('CallExpr', 'CXXMemberCallExpr'):
                callee = self.callee_decl(e)
                if callee is None:
                    return None
                d = self.ast.fn_def.get(callee.get('mangledName'))
                if d is None or not d.get('constexpr'):
                    return None
                if [p for p in d.get('inner', []) if p.get('kind') == 'ParmVarDecl']:
                    return None
                body = [c for c in d['inner'] if c.get('kind') == 'CompoundStmt'][0]
                st = body.get('inner', [])
                if len(st) == 1 and st[0].get('kind') == 'ReturnStmt':
                    return self.const_eval(st[0]['inner'][0])
                return None
        except (KeyError, IndexError, ValueError, LowerError):
            return None
        return None

    def _ival(self, v):
        if isinstance(v, bool):
            return int(v)
        if isinstance(v, int):
            return v
        s = str(v)
        if s == 'true':
            return 1
        if s == 'false':
            return 0
        return int(s)

    def sizeof(self, t):
        if t.derivs:
            d = t.derivs[-1]
            if d[0] == 'arr':
                return int(d[1]) * self.sizeof(t.deref())
            return 8
        sz = {'_Bool': 1, 'char': 1, 'signed char': 1, 'unsigned char': 1, 'short': 2, 'unsigned short': 2,
              'int': 4, 'unsigned int': 4, 'long': 8, 'unsigned long': 8, 'long long': 8, 'unsigned long long': 8,
              'float': 4, 'double': 8, 'qx_char16': 2, 'qx_char32': 4, 'qx_wchar': 4}.get(t.base)
        if sz is None:
            raise LowerError('sizeof(%s) not folded' % t.base)
        return sz

    def _wrap(self, v, t):
        if t.derivs:
            return None
        b = t.base
        if b == '_Bool':
            return int(bool(v))
        try:
            sz = self.sizeof(t) * 8
        except LowerError:
            return None
        if b in ('float', 'double'):
            return None
        signed = b in ('char', 'signed char', 'short', 'int', 'long', 'long long', 'qx_wchar')
        v &= (1 << sz) - 1
        if signed and v >> (sz - 1):
            v -= 1 << sz
        return v

    def enum_value(self, rd):
        full = self.ast.by_id.get(rd['id'])
        en = self.ast.parent.get(id(full))
        val = -1
        for c in en.get('inner', []):
            if c.get('kind') != 'EnumConstantDecl':
                continue
            if c.get('inner'):
                v = self.const_eval(c['inner'][0])
                if v is None:
                    raise LowerError('enum value')
                val = v
            else:
                val += 1
            if c['id'] == rd['id']:
                return val
        raise LowerError('enum constant not found')

    # ------------------------------------------------------------------ expressions
    def callee_decl(self, e):
        c = e['inner'][0]
        while c.get('kind') in ('ImplicitCastExpr', 'ParenExpr'):
            c = c['inner'][0]
        if c.get('kind') == 'DeclRefExpr':
            return self.ast.by_id.get(c['referencedDecl']['id'], c['referencedDecl'])
        if c.get('kind') == 'MemberExpr':
            return self.ast.by_id.get(c['referencedMemberDecl'])
        return None

    def call_args(self, callee, args, skip_this=False):
        ps = [p for p in callee.get('inner', []) if p.get('kind') == 'ParmVarDecl']
        out = []
        for i, a in enumerate(args):
            if i >= len(ps):
                raise LowerError('variadic or mismatched call')
            pt = self.ctype(ps[i]['type'])
            if a.get('kind') == 'CXXDefaultArgExpr':
                if not ps[i].get('inner'):
                    raise LowerError('default argument without expression')
                a = ps[i]['inner'][-1]
            if pt.is_ref():
                out.append(self.addr_of(a))
            elif pt.is_record():
                out.append(self.record_value(a, pt))
            else:
                out.append(self.expr(a))
        return out

    def record_value(self, a, t):
        """expression of record type as a C rvalue"""
        k = a.get('kind')
        if k in ('ExprWithCleanups', 'CXXBindTemporaryExpr', 'MaterializeTemporaryExpr'):
            return self.record_value(a['inner'][0], t)
        if k in ('CXXConstructExpr', 'CXXTemporaryObjectExpr'):
            tmp = self.hoisted_tmp(t)
            return '(%s, %s)' % (self.construct_into('&' + tmp, t, a), tmp)
        if k == 'CXXFunctionalCastExpr' or (k == 'ImplicitCastExpr' and a.get('castKind') in ('ConstructorConversion', 'NoOp')):
            return self.record_value(a['inner'][0], t)
        return self.expr(a)

    def new_tmp(self):
        # numbered per function, so that a loop contract can name a hoisted temporary whatever else is lowered with it
        if isinstance(self.cur, dict) and self.cur.get('cname'):
            self.cur['tmp_n'] = self.cur.get('tmp_n', 0) + 1
            return 'qx_tmp%d' % self.cur['tmp_n']
        self.tmp_counter += 1
        return 'qx_gtmp%d' % self.tmp_counter

    def hoisted_tmp(self, t):
        """declare a function-scope temporary of type t; returns its name"""
        nm = self.new_tmp()
        if self.cur is None or 'temps' not in self.cur:
            raise LowerError('temporary needed outside a function body')
        self.cur['temps'].append(t.decl(nm, keep_const=False) + ';')
        return nm

    def addr_of(self, a):
        """C expression for the address of (the object denoted by) a"""
        k = a.get('kind')
        if k in ('ExprWithCleanups', 'CXXBindTemporaryExpr'):
            return self.addr_of(a['inner'][0])
        if k == 'MaterializeTemporaryExpr':
            inner = a['inner'][0]
            t = self.ctype(a['type'])
            if t.is_record():
                return self._materialize_record(inner, t)
            tmp = self.hoisted_tmp(t)
            return '(%s = %s, &%s)' % (tmp, self.expr(inner), tmp)
        if k == 'ImplicitCastExpr' and a.get('castKind') in ('NoOp',):
            return self.addr_of(a['inner'][0])
        if k == 'ImplicitCastExpr' and a.get('castKind') in ('DerivedToBase', 'UncheckedDerivedToBase'):
            return '(&(%s)->qx_base)' % self.addr_of(a['inner'][0])
        if k == 'ParenExpr':
            return self.addr_of(a['inner'][0])
        if k == 'UnaryOperator' and a.get('opcode') == '*':
            return '(' + self.expr(a['inner'][0]) + ')'
        if k == 'CXXThisExpr':
            raise LowerError('address of this')
        if k == 'DeclRefExpr' and a['referencedDecl'].get('kind') in ('ParmVarDecl', 'VarDecl'):
            s = self.expr(a)
            if s.startswith('(*') and s.endswith(')') and re.fullmatch(r'\(\*[A-Za-z_][A-Za-z0-9_]*\)', s):
                return s[2:-1]
        if a.get('valueCategory') == 'prvalue':
            t = self.ctype(a['type'])
            if t.is_record():
                return self._materialize_record(a, t)
            tmp = self.hoisted_tmp(t)
            return '(%s = %s, &%s)' % (tmp, self.expr(a), tmp)
        return '(&(%s))' % self.expr(a)

    def _materialize_record(self, inner, t):
        # temporary object: a function-scope variable assigned inside the expression (lifetime is at least the C++ one;
        # only trivially destructible temporaries are supported here)
        k = inner.get('kind')
        while k in ('CXXBindTemporaryExpr', 'ExprWithCleanups', 'CXXFunctionalCastExpr') or (k == 'ImplicitCastExpr' and inner.get('castKind') in ('ConstructorConversion', 'NoOp')):
            inner = inner['inner'][0]
            k = inner.get('kind')
        tmp = self.hoisted_tmp(t)
        if k in ('CXXConstructExpr', 'CXXTemporaryObjectExpr'):
            return '(%s, &%s)' % (self.construct_into('&' + tmp, t, inner), tmp)
        return '(%s = %s, &%s)' % (tmp, self.expr(inner), tmp)

    def expr(self, e, stmt=False):
        k = e.get('kind')
        f = getattr(self, 'e_' + k, None)
        if f is None:
            raise LowerError('unsupported AST node kind %s at %s' % (k, self.ast.loc.get(id(e))))
        return f(e)

    def e_ParenExpr(self, e):
        return '(' + self.expr(e['inner'][0]) + ')'

    def e_ConstantExpr(self, e):
        if 'value' in e:
            t = self.ctype(e['type'])
            if not t.derivs and t.kind == 'scalar' and t.base not in ('float', 'double'):
                return '((%s)%s)' % (t.cast(), self.lit_value(e['value'], t))
        return self.expr(e['inner'][0])

    def e_ExprWithCleanups(self, e):
        return self.expr(e['inner'][0])

    def e_CXXBindTemporaryExpr(self, e):
        return self.expr(e['inner'][0])

    def e_SubstNonTypeTemplateParmExpr(self, e):
        return self.expr(e['inner'][-1])

    def e_MaterializeTemporaryExpr(self, e):
        return '(*%s)' % self.addr_of(e)

    def e_IntegerLiteral(self, e):
        t = self.ctype(e['type'])
        v = int(e['value'])
        suf = INT_SUFFIX.get(t.base)
        if suf is None:
            return '((%s)%d)' % (t.cast(), v)
        return '%d%s' % (v, suf)

    def e_CharacterLiteral(self, e):
        t = self.ctype(e['type'])
        return '((%s)%d)' % (t.cast(), int(e['value']))

    def e_FloatingLiteral(self, e):
        t = self.ctype(e['type'])
        v = str(e['value'])
        if not re.search(r'[.eEn]', v):
            v += '.0'
        return v + ('f' if t.base == 'float' else '')

    def e_CXXBoolLiteralExpr(self, e):
        return '((_Bool)%d)' % (1 if e['value'] else 0)

    def e_CXXNullPtrLiteralExpr(self, e):
        return '((void *)0)'

    def e_GNUNullExpr(self, e):
        return '((void *)0)'

    def e_StringLiteral(self, e):
        v = e['value']
        if v.startswith('u8'):
            v = v[2:]
        if v[:1] in ('u', 'U', 'L'):
            # wide literal: spelled out as an array of code units (goto-cc does not give u"..." 16/32-bit elements)
            t = self.ctype(e['type'])        # e.g. const char16_t[7]
            et = t.deref() if t.is_array() else t
            body = v[1:]
            body = body[body.index('"') + 1:body.rindex('"')]
            units, i = [], 0
            esc = {'n': 10, 't': 9, 'r': 13, '0': 0, '\\': 92, '"': 34, "'": 39, 'a': 7, 'b': 8, 'f': 12, 'v': 11}
            while i < len(body):
                ch = body[i]
                if ch == '\\':
                    nx = body[i + 1]
                    if nx == 'x':
                        j = i + 2
                        while j < len(body) and body[j] in '0123456789abcdefABCDEF':
                            j += 1
                        units.append(int(body[i + 2:j], 16)); i = j
                    elif nx == 'u':
                        units.append(int(body[i + 2:i + 6], 16)); i += 6
                    elif nx == 'U':
                        units.append(int(body[i + 2:i + 10], 16)); i += 10
                    elif nx in esc:
                        units.append(esc[nx]); i += 2
                    else:
                        raise LowerError('escape \\%s in wide string literal' % nx)
                else:
                    cp = ord(ch)
                    if et.base == 'qx_char16' and cp > 0xFFFF:
                        cp -= 0x10000
                        units += [0xD800 | (cp >> 10), 0xDC00 | (cp & 0x3FF)]
                    else:
                        units.append(cp)
                    i += 1
            units.append(0)
            return '((const %s[]){%s})' % (et.cast(), ', '.join(str(u) for u in units))
        return v

    def e_ImplicitValueInitExpr(self, e):
        t = self.ctype(e['type'])
        if t.is_record():
            return '((%s){0})' % t.cast()
        return '((%s)0)' % t.cast()

    def e_CXXScalarValueInitExpr(self, e):
        t = self.ctype(e['type'])
        return '((%s)0)' % t.cast()

    def e_InitListExpr(self, e):
        t = self.ctype(e['type'])
        if t.derivs and not t.is_ptr() or t.is_record():
            if t.is_record() and not e.get('inner'):
                return '((%s){0})' % t.cast()
            raise LowerError('aggregate InitListExpr in expression context')
        inner = e.get('inner', [])
        if not inner:
            return '((%s)0)' % t.cast()
        return '((%s)(%s))' % (t.cast(), self.expr(inner[0]))

    def cast_common(self, e):
        ck = e.get('castKind')
        sub = e['inner'][-1]
        if ck in ('LValueToRValue', 'NoOp', 'ArrayToPointerDecay', 'FunctionToPointerDecay', 'ConstructorConversion',
                  'UserDefinedConversion', 'BuiltinFnToFnPtr'):
            if ck == 'ArrayToPointerDecay' and sub.get('kind') == 'StringLiteral':
                return self.expr(sub)
            return self.expr(sub)
        t = self.ctype(e['type'])
        if ck in ('IntegralCast', 'FloatingCast', 'IntegralToFloating', 'FloatingToIntegral', 'PointerToIntegral',
                  'IntegralToPointer', 'BitCast', 'BooleanToSignedIntegral'):
            if t.is_ref():
                raise LowerError('cast to reference')
            return '((%s)(%s))' % (t.cast(), self.expr(sub))
        if ck in ('IntegralToBoolean', 'PointerToBoolean', 'FloatingToBoolean'):
            return '((_Bool)(%s))' % self.expr(sub)
        if ck == 'NullToPointer':
            return '((%s)0)' % t.cast()
        if ck == 'ToVoid':
            return '((void)(%s))' % self.expr(sub)
        if ck in ('DerivedToBase', 'UncheckedDerivedToBase'):
            if t.is_ptr():
                return '(&(%s)->qx_base)' % self.expr(sub)
            return '((%s).qx_base)' % self.expr(sub)
        if ck == 'Dependent':
            raise LowerError('dependent cast')
        raise LowerError('cast kind %s' % ck)

    e_ImplicitCastExpr = cast_common
    e_CStyleCastExpr = cast_common
    e_CXXStaticCastExpr = cast_common
    e_CXXReinterpretCastExpr = cast_common
    e_CXXConstCastExpr = cast_common

    def e_CXXFunctionalCastExpr(self, e):
        t = self.ctype(e['type'])
        if t.is_record():
            return self.record_value(e['inner'][0], t)
        return self.cast_common(e)

    def e_DeclRefExpr(self, e):
        rd = e['referencedDecl']
        k = rd.get('kind')
        if k in ('ParmVarDecl',):
            t = self.ctype(rd['type'])
            nm = rd.get('name')
            return '(*%s)' % nm if t.is_ref() else nm
        if k == 'VarDecl':
            full = self.ast.by_id.get(rd['id'], rd)
            if 'mangledName' in full and (full.get('storageClass') == 'static' or self.is_global(full)) and not self.is_local_static(full):
                return self.request_global(full)
            t = self.ctype(rd['type'])
            nm = rd.get('name')
            return '(*%s)' % nm if t.is_ref() else nm
        if k == 'EnumConstantDecl':
            t = self.ctype(e['type'])
            return '((%s)%d)' % (t.cast(), self.enum_value(rd))
        if k in ('FunctionDecl', 'CXXMethodDecl'):
            full = self.ast.by_id.get(rd['id'], rd)
            return self.request_fn(full)
        if k == 'BindingDecl':
            raise LowerError('structured binding')
        raise LowerError('DeclRefExpr to %s' % k)

    def is_global(self, v):
        p = self.ast.parent.get(id(v))
        return p is not None and p.get('kind') in ('NamespaceDecl', 'TranslationUnitDecl', 'CXXRecordDecl', 'ClassTemplateSpecializationDecl', 'LinkageSpecDecl')

    def is_local_static(self, v):
        p = self.ast.parent.get(id(v))
        return p is not None and p.get('kind') == 'DeclStmt'

    def request_global(self, v):
        m = v['mangledName']
        d = self.ast.var_def.get(m, v)
        name = self.glob_cname(d)
        if m not in self.glob_done:
            self.glob_done[m] = None
            t = self.ctype(d['type'])
            init = d['inner'][-1] if d.get('init') and d.get('inner') else None
            if init is None:
                raise LowerError('global %s has no initialiser in the AST' % name)
            saved = self.cur
            self.cur = {'ret': None, 'loop_ix': 0, 'spec': {}, 'locals': {}, 'cname': name}
            try:
                txt = self.static_init(t, init)
            finally:
                self.cur = saved
            se = init
            while se.get('kind') in ('ImplicitCastExpr', 'ParenExpr', 'ConstantExpr', 'ExprWithCleanups') and se.get('inner'):
                se = se['inner'][-1]
            if se.get('kind') == 'StringLiteral' and txt.startswith('"') and len(t.derivs) == 1 and t.is_ptr() and 'const' in (d['type'].get('qualType') or '').split('*')[-1]:
                # a constant pointer to a string literal: emitted as the array itself, so that other constants may
                # be initialised from it (a C constant expression) and the object has exactly the literal's extent
                self.glob_done[m] = 'static %s %s[] = %s;' % (('const ' if t.base_const else '') + t.base, name, txt)
            else:
                self.glob_done[m] = 'static %s = %s;' % (t.decl(name), txt)
            self.glob_order.append(m)
        return name

    def e_MemberExpr(self, e):
        base = e['inner'][0]
        md = self.ast.by_id.get(e.get('referencedMemberDecl'), {})
        if md.get('kind') in ('CXXMethodDecl', 'CXXConversionDecl', 'CXXDestructorDecl'):
            raise LowerError('bound member function outside a call')
        if md.get('kind') == 'VarDecl':
            return self.request_global(md)
        name = e.get('name', '')
        b = self.expr(base)
        if not name:
            # anonymous struct/union member: C11 anonymous members are accessed through the enclosing object
            return '(*%s)' % b if e.get('isArrow') else b
        # base-class member access: walk through qx_base if the field is not in the static class
        tstr = base['type'].get('desugaredQualType') or base['type'].get('qualType', '')
        if '(anonymous' in tstr or '(unnamed' in tstr:
            path = ''
        else:
            bt = self.ctype(base['type'])
            rec_t = bt.deref() if e.get('isArrow') else bt
            path = self.field_path(rec_t.rec, md)
        return '%s%s%s%s' % (b, '->' if e.get('isArrow') else '.', path, name)

    def field_path(self, rec, md):
        if rec is None or md is None:
            return ''
        if self.has_field(rec, md):
            return ''
        for i, b in enumerate(rec.get('bases', []) or []):
            bt = self.ctype(b['type'])
            sub = self.field_path(bt.rec, md)
            if sub is not None and (self.has_field(bt.rec, md) or sub != ''):
                return ('qx_base%d.' % i if i else 'qx_base.') + sub
        return ''

    def has_field(self, rec, md):
        def scan(r):
            for c in r.get('inner', []):
                if c.get('kind') == 'FieldDecl' and c.get('id') == md.get('id'):
                    return True
                if c.get('kind') == 'CXXRecordDecl' and not c.get('name') and scan(c):
                    return True
            return False
        return scan(rec)

    def e_CXXThisExpr(self, e):
        return 'self'

    def e_ArraySubscriptExpr(self, e):
        return '%s[%s]' % (self.expr(e['inner'][0]), self.expr(e['inner'][1]))

    def e_UnaryOperator(self, e):
        op = e['opcode']
        sub = e['inner'][0]
        if op == '&':
            return self.addr_of(sub)
        s = self.expr(sub)
        if op == '*':
            return '(*%s)' % s
        if e.get('isPostfix'):
            return '(%s%s)' % (s, op)
        if op in ('++', '--'):
            return '(%s%s)' % (op, s)
        if op == '__extension__':
            return s
        return '(%s(%s))' % (op, s)

    def e_BinaryOperator(self, e):
        op = e['opcode']
        a, b = e['inner']
        if op == ',':
            return '(%s, %s)' % (self.expr(a), self.expr(b))
        if op == '=':
            t = self.ctype(a['type'])
            if t.is_record():
                return '(%s = %s)' % (self.expr(a), self.record_value(b, t))
        if op in ('.*', '->*'):
            raise LowerError('member pointer')
        return '(%s %s %s)' % (self.expr(a), op, self.expr(b))

    e_CompoundAssignOperator = e_BinaryOperator

    def e_ConditionalOperator(self, e):
        c, a, b = e['inner']
        return '(%s ? %s : %s)' % (self.expr(c), self.expr(a), self.expr(b))

    def e_UnaryExprOrTypeTraitExpr(self, e):
        nm = e.get('name')
        if nm not in ('sizeof', 'alignof'):
            raise LowerError('type trait %s' % nm)
        t = self.ctype(e['type'])
        if 'argType' in e:
            at = self.ctype(e['argType'])
            if at.is_ref():
                at = at.deref()
            return '((%s)%s(%s))' % (t.cast(), 'sizeof' if nm == 'sizeof' else '_Alignof', at.cast())
        return '((%s)sizeof(%s))' % (t.cast(), self.expr(e['inner'][0]))

    def e_CallExpr(self, e):
        callee = self.callee_decl(e)
        if callee is None:
            raise LowerError('indirect call')
        args = e['inner'][1:]
        nm = callee.get('name', '')
        if nm.startswith('__builtin_') or nm.startswith('_mm'):
            return self.builtin_call(nm, callee, args)
        if nm in ('operator new', 'operator new[]') and len(args) == 1:
            # ::operator new(size) -> malloc(size); allocation failure is not modelled (listed as an assumption)
            return 'malloc(%s)' % self.expr(args[0])
        if nm in ('operator delete', 'operator delete[]') and len(args) >= 1:
            return 'free(%s)' % self.expr(args[0])
        cname = self.request_fn(callee)
        d = self.ast.fn_def.get(callee.get('mangledName'), callee)
        s = '%s(%s)' % (cname, ', '.join(self.call_args(d, args)))
        rt = self.ctype(self.ret_type_str(d))
        return '(*%s)' % s if rt.is_ref() else s

    def builtin_call(self, nm, callee, args):
        if nm.startswith('_mm'):
            # SIMD intrinsics are replaced by byte-level models (trusted, printed in the prelude)
            if nm not in SIMD_MODELS:
                raise LowerError('no model for intrinsic %s' % nm)
            self.intrinsics.add(nm)
            return 'qx_%s(%s)' % (nm, ', '.join(self.expr(a) for a in args))
        return '%s(%s)' % (nm, ', '.join(self.expr(a) for a in args))

    def e_CXXMemberCallExpr(self, e):
        me = e['inner'][0]
        while me.get('kind') in ('ParenExpr', 'ImplicitCastExpr'):
            me = me['inner'][0]
        if me.get('kind') != 'MemberExpr':
            raise LowerError('member call through %s' % me.get('kind'))
        md = self.ast.by_id.get(me['referencedMemberDecl'])
        d = self.ast.fn_def.get(md.get('mangledName'), md)
        base = me['inner'][0]
        this = self.expr(base) if me.get('isArrow') else self.addr_of(base)
        # implicit derived-to-base on the object is represented by casts inside base
        cname = self.request_fn(md)
        args = e['inner'][1:]
        s = '%s(%s)' % (cname, ', '.join([this] + self.call_args(d, args)))
        if d.get('kind') == 'CXXDestructorDecl':
            return s
        rt = self.ctype(self.ret_type_str(d))
        return '(*%s)' % s if rt.is_ref() else s

    def e_CXXOperatorCallExpr(self, e):
        callee = self.callee_decl(e)
        args = e['inner'][1:]
        if callee is None:
            raise LowerError('operator call without callee')
        # immediately invoked lambda
        if args and self.strip(args[0]).get('kind') == 'LambdaExpr':
            return self.invoke_lambda(self.strip(args[0]), args[1:])
        d = self.ast.fn_def.get(callee.get('mangledName'), callee)
        if d.get('isImplicit') or d.get('explicitlyDefaulted'):
            if callee.get('name') == 'operator=':
                t = self.ctype(args[0]['type'])
                ps = [p for p in d.get('inner', []) if p.get('kind') == 'ParmVarDecl']
                is_move = bool(ps) and '&&' in ps[0]['type'].get('qualType', '')
                if t.is_record() and self.assign_is_nontrivial(t, is_move):
                    # implicitly defined assignment of a class whose bases/members have user-provided assignment: memberwise, as the language defines it
                    body = self.implicit_assign('qx_l', 'qx_r', t, is_move)
                    return '(*({ %s = %s; %s = &(%s); %s qx_l; }))' % (
                        t.ptr_to().decl('qx_l', keep_const=False), self.addr_of(args[0]), t.ptr_to().decl('qx_r', keep_const=False), self.record_value(args[1], t), body)
                return '(%s = %s)' % (self.expr(args[0]), self.record_value(args[1], t))
            raise LowerError('implicit operator %s' % callee.get('name'))
        cname = self.request_fn(callee)
        if self.is_method(d):
            this = self.addr_of(args[0])
            s = '%s(%s)' % (cname, ', '.join([this] + self.call_args(d, args[1:])))
        else:
            s = '%s(%s)' % (cname, ', '.join(self.call_args(d, args)))
        rt = self.ctype(self.ret_type_str(d))
        return '(*%s)' % s if rt.is_ref() else s

    def find_assign_op(self, rec, is_move):
        """user-provided operator= of record `rec` taking an rvalue (is_move) or const lvalue reference; None if implicit/defaulted/absent"""
        for c in (rec or {}).get('inner', []):
            if c.get('kind') == 'CXXMethodDecl' and c.get('name') == 'operator=':
                ps = [p for p in c.get('inner', []) if p.get('kind') == 'ParmVarDecl']
                if len(ps) != 1:
                    continue
                qt = ps[0]['type'].get('qualType', '')
                if ('&&' in qt) != is_move:
                    continue
                dd = self.ast.fn_def.get(c.get('mangledName'), c)
                if dd.get('isImplicit') or dd.get('explicitlyDefaulted') or c.get('isImplicit') or c.get('explicitlyDefaulted'):
                    return None
                return dd
        return None

    def record_parts(self, t):
        """[(member path, CType)] of the direct bases and record-typed fields of record type t"""
        out = []
        for i, b in enumerate(t.rec.get('bases') or []):
            out.append(('qx_base%d' % i if i else 'qx_base', self.ctype(b['type'])))
        for f in t.rec.get('inner', []):
            if f.get('kind') == 'FieldDecl' and f.get('name'):
                ft = self.ctype(f['type'])
                out.append((f['name'], ft))
        return out

    def assign_is_nontrivial(self, t, is_move):
        if t.rec is None or t.rec.get('tagUsed') == 'union':
            return False
        for nm, pt in self.record_parts(t):
            if pt.is_record() and not pt.derivs:
                if self.find_assign_op(pt.rec, is_move) is not None or self.assign_is_nontrivial(pt, is_move):
                    return True
        return False

    def implicit_assign(self, l, r, t, is_move):
        """statements assigning *r to *l memberwise (l, r: pointer expressions)"""
        out = ''
        for nm, pt in self.record_parts(t):
            if pt.is_record() and not pt.derivs:
                op = self.find_assign_op(pt.rec, is_move)
                if op is not None:
                    out += '%s(&(%s)->%s, &(%s)->%s); ' % (self.request_fn(op), l, nm, r, nm)
                    continue
                if self.assign_is_nontrivial(pt, is_move):
                    out += self.implicit_assign('(&(%s)->%s)' % (l, nm), '(&(%s)->%s)' % (r, nm), pt, is_move)
                    continue
            if pt.is_array():
                out += '__builtin_memcpy((%s)->%s, (%s)->%s, sizeof((%s)->%s)); ' % (l, nm, r, nm, l, nm)
            else:
                out += '(%s)->%s = (%s)->%s; ' % (l, nm, r, nm)
        return out

    def strip(self, e):
        while e.get('kind') in ('ImplicitCastExpr', 'ParenExpr', 'MaterializeTemporaryExpr', 'ExprWithCleanups', 'CXXBindTemporaryExpr'):
            e = e['inner'][0]
        return e

    def invoke_lambda(self, lam, args):
        if args:
            raise LowerError('lambda with arguments')
        rec = [c for c in lam['inner'] if c.get('kind') == 'CXXRecordDecl'][0]
        call = [c for c in rec['inner'] if c.get('kind') == 'CXXMethodDecl' and c.get('name') == 'operator()'][0]
        body = [c for c in call['inner'] if c.get('kind') == 'CompoundStmt'][0]
        rt = self.ctype(self.ret_type_str(call))
        # free variables: enclosing locals/params referenced in the body
        fv = {}

        def scan(n):
            if isinstance(n, dict):
                if n.get('kind') == 'DeclRefExpr':
                    rd = n['referencedDecl']
                    if rd.get('kind') in ('ParmVarDecl', 'VarDecl') and not self.ast.by_id.get(rd['id'], {}).get('mangledName', '').startswith('_Z') :
                        fv[rd['id']] = rd
                    elif rd.get('kind') in ('ParmVarDecl',):
                        fv[rd['id']] = rd
                    elif rd.get('kind') == 'VarDecl' and self.is_local_var(rd):
                        fv[rd['id']] = rd
                if n.get('kind') == 'CXXThisExpr':
                    fv['this'] = {'name': 'self', 'this': True}
                for c in n.get('inner', []):
                    scan(c)
        scan(body)
        self.tmp_counter += 1
        hname = '%s_lambda%d' % (self.cur['cname'], self.tmp_counter)
        params, actual = [], []
        for i, rd in fv.items():
            if rd.get('this'):
                st = self.fn_signature(self.cur['node'])[2][0][1]
                params.append(st.decl('self'))
                actual.append('self')
                continue
            t = self.ctype(rd['type'])
            params.append(t.decl(rd['name'], keep_const=False) if not t.is_ref() else t.decl(rd['name']))
            actual.append(rd['name'])
        saved = self.cur
        self.cur = {'node': call, 'ret': rt, 'cname': hname, 'loop_ix': 0, 'spec': {}, 'locals': {}, 'temps': []}
        try:
            text = self.stmt(body, 0)
            if self.cur['temps']:
                i = text.index('{')
                text = text[:i + 1] + '\n  ' + ' '.join(self.cur['temps']) + text[i + 1:]
        finally:
            self.cur = saved
        self.extra_fns.append('/* lambda in %s, free variables passed by value */\nstatic %s %s(%s)\n%s' % (
            saved['cname'], rt.decl('', keep_const=False), hname, ', '.join(params) or 'void', text))
        return '%s(%s)' % (hname, ', '.join(actual))

    def is_local_var(self, rd):
        full = self.ast.by_id.get(rd['id'], rd)
        p = self.ast.parent.get(id(full))
        return p is not None and p.get('kind') == 'DeclStmt' and full.get('storageClass') != 'static'

    def e_CXXConstructExpr(self, e):
        t = self.ctype(e['type'])
        return self.record_value(e, t)

    e_CXXTemporaryObjectExpr = e_CXXConstructExpr

    def e_CXXNewExpr(self, e):
        if not e.get('isPlacement') or e.get('isArray'):
            raise LowerError('non-placement or array new expression')
        t = self.ctype(e['type'])          # T *
        et = t.deref()
        inner = e.get('inner', [])
        place = [x for x in inner if self.ctype(x['type']).cast().replace(' ', '') == 'void*']
        inits = [x for x in inner if x not in place]
        if len(place) != 1 or len(inits) > 1:
            raise LowerError('placement new with %d placement arguments / %d initialisers' % (len(place), len(inits)))
        tmp = self.hoisted_tmp(t)
        p = '(%s = (%s)(%s))' % (tmp, t.cast(), self.expr(place[0]))
        if not inits:
            return '(%s, %s)' % (p, tmp)
        init = inits[0]
        if et.is_record():
            k = init.get('kind')
            while k in ('ExprWithCleanups', 'CXXBindTemporaryExpr'):
                init = init['inner'][0]
                k = init.get('kind')
            if k in ('CXXConstructExpr', 'CXXTemporaryObjectExpr'):
                return '(%s, %s, %s)' % (p, self.construct_into(tmp, et, init), tmp)
            if k == 'InitListExpr' and not init.get('inner'):
                return '(%s, %s, %s)' % (p, self.default_init(tmp, et), tmp)
            raise LowerError('placement new of a record from %s' % k)
        return '(%s, *%s = %s, %s)' % (p, tmp, self.expr(init), tmp)

    def e_CXXDefaultArgExpr(self, e):
        raise LowerError('default argument outside a call')

    def e_PredefinedExpr(self, e):
        raise LowerError('__func__')

    # ------------------------------------------------------------------ output
    def emit(self):
        self.lower_all()
        parts = [PRELUDE]
        for nb in sorted(self.need_vec):
            parts.append('struct qx_vec%d { unsigned char b[%d]; };  /* model of the %d-byte SIMD register type */' % (nb, nb, nb))
        for nm in sorted(self.intrinsics):
            if getattr(self, 'simd_contracts', False) and nm in SIMD_CONTRACTS:
                parts.append('/* trusted contract of intrinsic %s (observed at ghost byte index g_k) */ %s' % (nm, SIMD_CONTRACTS[nm]))
            else:
                parts.append('/* trusted byte-level model of intrinsic %s */ %s' % (nm, SIMD_MODELS[nm]))
        parts += self.out_types
        for m in self.glob_order:
            parts.append(self.glob_done[m])
        parts.append('/* ---- end types ---- */')
        for m in self.fn_done:
            parts.append(self.fn_proto.get(m, '') + ';') if m in self.fn_proto and '__CPROVER' not in self.fn_done[m][:0] else None
        parts += self.extra_fns
        for m, txt in self.fn_done.items():
            if self.fn_info[self.fn_names[m]]['has_body']:
                parts.append(txt)
            else:
                parts.append(txt)
        return '\n'.join(p for p in parts if p)


def dump_ast(driver_cpp, include_dirs, defines=(), out_json=None, std='c++17', extra=()):
    cmd = ['clang++', '-std=' + std, '-fsyntax-only', '-Wno-everything']
    for i in include_dirs:
        cmd += ['-I', i]
    for dname in defines:
        cmd += ['-D' + dname]
    cmd += list(extra)
    cmd += ['-Xclang', '-ast-dump=json', driver_cpp]
    r = subprocess.run(cmd, stdout=subprocess.PIPE, stderr=subprocess.PIPE)
    if r.returncode != 0:
        raise LowerError('clang failed on %s:\n%s' % (driver_cpp, r.stderr.decode()[:4000]))
    if out_json:
        with open(out_json, 'wb') as f:
            f.write(r.stdout)
    return json.loads(r.stdout)


if __name__ == '__main__':
    import argparse
    ap = argparse.ArgumentParser()
    ap.add_argument('json')
    ap.add_argument('funcs', nargs='+')
    ap.add_argument('--cut', action='append', default=[])
    a = ap.parse_args()
    ast = AST(a.json)
    lw = Lowerer(ast)
    lw.cuts = set(a.cut)
    for q in a.funcs:
        fs = ast.find_functions(q)
        if not fs:
            print('no function', q, file=sys.stderr)
            sys.exit(2)
        for f in fs:
            lw.request_fn(f)
    print(lw.emit())
