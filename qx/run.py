#!/usr/bin/env python3
"""qx.run -- build C jobs from lowered code + contracts, discharge them with CBMC, classify.

A *unit* is one instantiation driver (inst/*.cpp) under one set of -D defines; its clang AST
is dumped once per check run.  A *job* is one goto-instrument/cbmc pipeline over text that
is lowered from that AST on the spot.
"""
import os, sys, json, re, subprocess, time, shutil, tempfile, resource, hashlib, threading
from concurrent.futures import ThreadPoolExecutor

HERE = os.path.dirname(os.path.abspath(__file__))
VERIF = os.path.dirname(HERE)
sys.path.insert(0, HERE)
from lower import AST, Lowerer, LowerError, dump_ast, CType  # noqa

REPO = os.environ.get('QX_REPO', '/repo')
INCLUDE = os.path.join(REPO, 'Include')

DEFAULT_CHECKS = ['--bounds-check', '--pointer-check', '--div-by-zero-check', '--pointer-overflow-check']
MEM_LIMIT = 14 * 1024 ** 3


class Undecided(Exception):
    """anything that is neither a pass nor a violation (exit 2)"""


_ast_cache = {}
_ast_lock = threading.Lock()


def get_ast(workdir, driver, defines=(), cflags=()):
    key = (driver, tuple(defines), tuple(cflags))
    with _ast_lock:
        if key in _ast_cache:
            return _ast_cache[key]
    path = os.path.join(VERIF, 'inst', driver)
    t0 = time.time()
    try:
        obj = dump_ast(path, [INCLUDE, os.path.join(VERIF, 'inst')], defines, extra=cflags)
    except LowerError as e:
        raise Undecided('extraction-broken: ' + str(e))
    ast = AST(obj)
    ast.dump_seconds = time.time() - t0
    with _ast_lock:
        _ast_cache[key] = ast
    return ast


def limit_resources():
    try:
        resource.setrlimit(resource.RLIMIT_AS, (MEM_LIMIT, MEM_LIMIT))
    except Exception:
        pass


def sh(cmd, timeout, cwd=None, env=None):
    t0 = time.time()
    try:
        r = subprocess.run(cmd, stdout=subprocess.PIPE, stderr=subprocess.PIPE, timeout=timeout, cwd=cwd, env=env,
                           preexec_fn=limit_resources)
        if r.returncode in (-9, 137):
            return -8, r.stdout.decode(errors='replace'), 'KILLED (memory limit) ' + r.stderr.decode(errors='replace')[-300:], time.time() - t0
        return r.returncode, r.stdout.decode(errors='replace'), r.stderr.decode(errors='replace'), time.time() - t0
    except subprocess.TimeoutExpired as e:
        return -9, (e.stdout or b'').decode(errors='replace'), 'TIMEOUT after %ss' % timeout, time.time() - t0


_z3dirs = {}


def solver_flags(solver, workdir):
    """returns (flags, env)"""
    env = dict(os.environ)
    if solver in ('minisat', None):
        return [], env
    if solver in ('cadical',):
        return ['--sat-solver', 'cadical'], env
    if solver == 'kissat':
        return ['--external-sat-solver', 'kissat'], env
    if solver in ('z3', 'z3new'):
        d = os.path.join(workdir, 'path_' + solver)
        os.makedirs(d, exist_ok=True)
        tgt = shutil.which('z3-new') if solver == 'z3new' else '/usr/bin/z3'
        link = os.path.join(d, 'z3')
        if not os.path.exists(link):
            try:
                os.symlink(tgt, link)
            except FileExistsError:
                pass
        env['PATH'] = d + ':' + env['PATH']
        return ['--z3'], env
    if solver == 'cvc5':
        return ['--cvc5'], env
    raise Undecided('unknown solver ' + str(solver))


# --------------------------------------------------------------------------- C text assembly

def lowered_text(ast, roots, fnspecs, cuts=(), line_directives=True, drop_contracts=False, simd_contracts=False, cut_qual=(), call_rename=None, uncut_qual=()):
    """lower the functions named by qualified name in `roots` plus callee closure.
    fnspecs: cname -> contract dict.  Returns (text, lowerer)."""
    lw = Lowerer(ast, line_directives=line_directives)
    lw.specs = fnspecs
    lw.no_contracts = drop_contracts
    lw.simd_contracts = simd_contracts and not drop_contracts
    lw.cuts = set(cuts)
    lw.cut_qual = tuple(cut_qual)
    lw.call_rename = call_rename
    lw.uncut_qual = tuple(uncut_qual)
    for q in roots:
        fs = ast.find_functions(q)
        if not fs:
            raise Undecided('extraction-broken: no instantiation named %s in the driver' % q)
        for f in fs:
            lw.request_fn(f)
    try:
        text = lw.emit()
    except LowerError as e:
        raise Undecided('extraction-broken: ' + str(e))
    return text, lw


def expand_spec(spec):
    """turn the declarative parts (buffers, refs) of a function spec into contract clauses"""
    s = dict(spec)
    req = []
    for b in spec.get('buffers', []):
        p, n = b[0], b[1]
        if len(b) > 2:
            req.append('__CPROVER_is_fresh(%s, ((__CPROVER_size_t)(%s)) * sizeof(%s))' % (p, n, b[2]))
        else:
            req.append('__CPROVER_is_fresh(%s, ((__CPROVER_size_t)(%s)) * sizeof(*(%s)))' % (p, n, p))
    for r in spec.get('refs', []):
        req.append('__CPROVER_is_fresh(%s, sizeof(*(%s)))' % (r, r))
    s['requires'] = req + list(spec.get('requires', []))
    return s


def harness_text(lw, fn, ghosts, hname, fixed_args=None):
    fixed_args = fixed_args or {}
    info = lw.fn_info[fn]
    lines = ['void %s(void)' % hname, '{']
    for (t, g) in ghosts:
        if '[' in g:
            continue
        lines.append('  { %s qx_nd; %s = qx_nd; }' % (t, g))
    args = []
    for nm, t, isref in info['params']:
        if nm in fixed_args:
            lines.append('  %s = %s;' % (t.decl('a_' + nm, keep_const=False), fixed_args[nm]))
        else:
            lines.append('  %s;' % t.decl('a_' + nm, keep_const=False))
        args.append('a_' + nm)
    lines.append('  %s(%s);' % (fn, ', '.join(args)))
    lines.append('}')
    return '\n'.join(lines) + '\n'


# --------------------------------------------------------------------------- job execution

def safe_name(n):
    for a, b in (('<=', 'le'), ('>=', 'ge'), ('==', 'eq'), ('!=', 'ne'), ('<', '_'), ('>', '_')):
        pass
    return re.sub(r'[^A-Za-z0-9_.-]', lambda m: '_%02x' % ord(m.group(0)) if m.group(0) in '<>=!&|+*/' else '_', n)


class JobResult:
    def __init__(self, job):
        self.job = job
        self.name = job['name']
        self.obligations = []   # dicts: name, status, description, file, line
        self.status = 'undecided'
        self.reason = ''
        self.seconds = 0.0
        self.solver_seconds = 0.0
        self.cmds = []
        self.log = ''
        self.files = {}
        self.functions = []
        self.assumes = []
        self.canary = None

    def counts(self):
        tot = len(self.obligations)
        ok = sum(1 for o in self.obligations if o['status'] == 'SUCCESS')
        bad = [o for o in self.obligations if o['status'] == 'FAILURE']
        return tot, ok, bad


def parse_cbmc_text(out):
    """plain-text UI (the JSON UI always embeds full traces for failed properties, which can be gigabytes for
    symbolic-size objects).  returns (results, status, messages) in the shape of parse_cbmc_json"""
    results, msgs = [], []
    cur_file, cur_fn = '', ''
    status = None
    for line in out.split('\n'):
        m = re.match(r'^(\S.*) function (\S+)$', line)
        if m and not line.startswith('['):
            cur_file, cur_fn = m.group(1), m.group(2)
            continue
        m = re.match(r'^\[([^\]]+)\] (?:line (\d+) )?(.*): (SUCCESS|FAILURE|UNKNOWN|ERROR)\s*$', line)
        if m:
            results.append(dict(property=m.group(1), status=m.group(4), description=m.group(3),
                                sourceLocation=dict(file=cur_file, line=m.group(2) or '', function=cur_fn)))
            continue
        if line.startswith('VERIFICATION SUCCESSFUL'):
            status = 'success'
        elif line.startswith('VERIFICATION FAILED'):
            status = 'failure'
        elif line.startswith('VERIFICATION ERROR') or 'Out of memory' in line or line.startswith('CONVERSION ERROR') or line.startswith('Usage error') or 'Unknown option' in line:
            msgs.append(line)
            if status is None:
                status = None
        elif 'ignoring forall' in line or 'ignoring exists' in line or line.startswith('**** WARNING'):
            msgs.append(line)
    if status is None:
        return None, None, msgs or [out[-800:]]
    return results, status, msgs


def parse_cbmc_json(out):
    try:
        data = json.loads(out)
    except Exception:
        # cbmc sometimes prints trailing text; try to cut at last ']'
        i = out.rfind(']')
        try:
            data = json.loads(out[:i + 1])
        except Exception:
            return None, None, ['unparseable cbmc output']
    results, status, msgs = [], None, []
    for x in data:
        if 'result' in x:
            results = x['result']
        if 'cProverStatus' in x:
            status = x['cProverStatus']
        if x.get('messageType') in ('ERROR', 'WARNING'):
            msgs.append(x.get('messageText', ''))
        if x.get('messageType') == 'STATUS-MESSAGE' and 'Runtime' in x.get('messageText', ''):
            msgs.append(x['messageText'])
    return results, status, msgs


def run_job(job, unit, workdir, log=print):
    """job keys: name, fn (cname of the function under contract), roots (qualified names to lower),
    specs (cname->contract), replace (cnames replaced by contract), ghosts [(ctype,name)], extra (C text),
    mode dfcc|harness, harness (C text for harness mode), checks, solver, unwind, unwindset, timeout,
    objbits, defines (cc -D), properties (restrict to cbmc property ids/regex)"""
    res = JobResult(job)
    t_start = time.time()
    jd = os.path.join(workdir, safe_name(job['name']))
    os.makedirs(jd, exist_ok=True)
    try:
        ast = get_ast(workdir, unit['driver'], unit.get('defines', ()), unit.get('cflags', ()))
        if job.get('mode') == 'static':
            # supporting static fact read off the clang AST (not a CBMC obligation; reported separately in the evidence)
            for (nm, ok, desc, loc) in job['static_fn'](ast):
                res.obligations.append(dict(name='static.' + nm, status='SUCCESS' if ok else 'FAILURE', description=desc, file=loc[0], line=str(loc[1]), function=''))
            if not res.obligations:
                raise Undecided('vacuity guard: static fact produced no obligations')
            res.status = 'fail' if any(o['status'] == 'FAILURE' for o in res.obligations) else 'pass'
            res.cmds.append('static fact on the clang AST: ' + job.get('clause', ''))
            res.seconds = time.time() - t_start
            return res
        specs = {k: expand_spec(v) for k, v in job.get('specs', {}).items()}
        mode = job.get('mode', 'dfcc')
        text, lw = lowered_text(ast, job['roots'], specs, cuts=job.get('cuts', ()), simd_contracts=bool(job.get('simd_contracts')), cut_qual=job.get('cut_qual', ()), call_rename=job.get('call_rename'), uncut_qual=job.get('uncut_qual', ()))
        ghosts = job.get('ghosts', [])
        gtext = ''.join('%s %s;\n' % (t, g) for t, g in ghosts)
        if job.get('prune_specs'):
            # a shared contract library: clauses for callees this function does not reach are dropped
            keep = set(lw.fn_info) | {job['fn']}
            specs = {k: v for k, v in specs.items() if k in keep}
            job = dict(job, specs={k: v for k, v in job['specs'].items() if k in keep}, replace=[r for r in job.get('replace', ()) if r in keep])
            res.job = job
        # spec sanity: every spec'd function must exist in the lowered text
        for cn in specs:
            if cn not in lw.fn_info and set(job['specs'][cn].keys()) - {'stub_body'}:
                raise Undecided('spec names function %s which the lowering did not produce (renamed or no longer called?)' % cn)
        for cn, sp in specs.items():
            if cn not in lw.fn_info:
                continue
            inf = lw.fn_info[cn]
            if inf['has_body'] and cn not in job.get('replace', ()) and sp.get('loops') is not None:
                nl = len(sp.get('loops') or {})
                if nl != inf['loops'] and not sp.get('loops_partial'):
                    raise Undecided('%s: %d loop contracts for %d loops' % (cn, nl, inf['loops']))
        res.functions = [dict(cname=i['cname'], qualname=i['qualname'], file=str(i['file']), lines=i['lines'],
                              hash=i.get('hash'), has_body=i['has_body']) for i in lw.fn_info.values()]
        hname = 'qx_harness'
        pre = job.get('pre', '')
        # ghosts and helper text must precede the lowered functions (contracts refer to them)
        head, _, rest = text.partition('/* ---- end types ---- */')
        if mode == 'dfcc':
            htext = harness_text(lw, job['fn'], ghosts, hname, job.get('fixed_args'))
        elif mode == 'harness':
            # loop-free / constant-bound harness: assume requires, call the real (lowered) function, assert ensures.
            # Callees without a body are stubs whose bodies come from the spec (trusted, listed in the evidence).
            import replay as RP
            raw = job.get('specs', {})
            # recursion (same rule as the bounded counterexample search): the function under test and its direct callees keep their real bodies,
            # calls made by those callees back into the recursive group go to contract stubs (spec key cex_stub)
            rec = list(job.get('cex_recursive', ()))
            rename = {g: {h: h + '_cexstub' for h in rec} for g in rec if g != job['fn']} if rec else None
            text, lw = lowered_text(ast, job['roots'], {k: {kk: vv for kk, vv in v.items() if kk == 'ghost_returns'} for k, v in raw.items()},
                                    cuts=job.get('cuts', ()), drop_contracts=True, cut_qual=job.get('cut_qual', ()), uncut_qual=job.get('uncut_qual', ()), call_rename=rename)
            fwd = ''
            for h in rec:
                if h in lw.fn_info and raw.get(h, {}).get('cex_stub'):
                    pr = lw.proto(lw.fn_info[h]['node']).replace(h + '(', h + '_cexstub(', 1)
                    fwd += pr + ';\n'
                    text += '\n' + pr + '\n{\n' + raw[h]['cex_stub'] + '\n}\n'
                elif h in lw.fn_info:
                    raise Undecided('harness mode: no cex_stub for recursive callee %s' % h)
            if fwd:
                head_, mark_, rest_ = text.partition('/* ---- end types ---- */')
                text = head_ + mark_ + '\n' + fwd + rest_
            fixed = dict(job.get('fixed') or {})
            if job.get('sweep'):
                fixed[job['sweep'][0]] = 'QX_SWEEP'
            hg = RP.HarnessGen(lw, job['fn'], raw[job['fn']], ghosts, K=job.get('harness_K', 6), fixed=fixed)
            htext = '#define QX_WITH_CANARY 1\n' + RP.CBMC_PRE + hg.build()
            for cn, inf in lw.fn_info.items():
                if not inf['has_body']:
                    body = raw.get(cn, {}).get('stub_body')
                    if body is None:
                        raise Undecided('harness mode: no stub body for %s' % cn)
                    htext = lw.proto(inf['node']) + '\n{\n' + body + '\n}\n' + htext
            res.functions = [dict(cname=i['cname'], qualname=i['qualname'], file=str(i['file']), lines=i['lines'],
                                  hash=i.get('hash'), has_body=i['has_body']) for i in lw.fn_info.values()]
        else:
            htext = job['harness']
        # split: types+globals first, then ghosts/pre, then functions
        tdefs = 'typedef unsigned short qx_char16;\ntypedef unsigned int qx_char32;\ntypedef int qx_wchar;\n'
        full = '#define QX_CBMC 1\n' + tdefs + gtext + pre + '\n' + text + '\n' + job.get('extra', '') + '\n' + htext
        cfile = os.path.join(jd, 'job.c')
        with open(cfile, 'w') as f:
            f.write(full)
        res.files['c'] = cfile
        res.assumes = sorted(set(re.findall(r'__CPROVER_assume\s*\(([^;]*)\);', full)))
        if job.get('sweep'):
            return run_sweep(job, res, jd, cfile, hname, workdir, t_start)
        # 1. goto-cc
        gb0 = os.path.join(jd, 'a.gb')
        cmd = ['goto-cc', '--function', hname, cfile, '-o', gb0] + ['-D' + d for d in job.get('defines', [])]
        rc, out, err, dt = sh(cmd, 300)
        res.cmds.append(' '.join(cmd))
        if rc != 0:
            raise Undecided('goto-cc failed (weave/compile error): ' + (err + out)[-1500:])
        cur = gb0
        if job.get('unwind_loops'):
            # {cname: {AST loop ordinal: bound}} -> CBMC loop names (numbered by back-edge order)
            items = []
            for cn, m in job['unwind_loops'].items():
                lm = lw.fn_info[cn]['loop_map']
                for ordn, bound in m.items():
                    if ordn not in lm:
                        raise Undecided('unwind_loops: %s has no loop %s' % (cn, ordn))
                    items.append('%s.%d:%d' % (cn, lm[ordn], bound))
            job = dict(job)
            job['pre_unwindset'] = ','.join(items + ([job['pre_unwindset']] if job.get('pre_unwindset') else []))
        if job.get('pre_unwind'):
            gbu = os.path.join(jd, 'a_unwound0.gb')
            cmd = ['goto-instrument', '--unwind', str(job['pre_unwind']), '--unwinding-assertions', cur, gbu]
            rc, out, err, dt = sh(cmd, 600)
            res.cmds.append(' '.join(cmd))
            if rc != 0:
                raise Undecided('goto-instrument pre-unwind failed: ' + (err + out)[-1500:])
            cur = gbu
        if job.get('pre_unwindset'):
            # loops closed by their constant bound are unwound BEFORE contract instrumentation (dfcc sizes its write sets statically)
            gbu = os.path.join(jd, 'a_unwound.gb')
            cmd = ['goto-instrument', '--unwindset', job['pre_unwindset'], '--unwinding-assertions', cur, gbu]
            rc, out, err, dt = sh(cmd, 600)
            res.cmds.append(' '.join(cmd))
            if rc != 0:
                raise Undecided('goto-instrument pre-unwind failed: ' + (err + out)[-1500:])
            cur = gbu
        # 2. instrument
        if mode == 'dfcc':
            gb1 = os.path.join(jd, 'b.gb')
            cmd = ['goto-instrument', '--no-malloc-may-fail', '--dfcc', hname, '--enforce-contract', job['fn']]
            for r in list(job.get('replace', [])) + (['qx_' + i for i in sorted(lw.intrinsics)] if job.get('simd_contracts') else []):
                cmd += ['--replace-call-with-contract', r]
            cmd += ['--apply-loop-contracts'] if job.get('loop_contracts', True) else []
            cmd += [cur, gb1]
            rc, out, err, dt = sh(cmd, 600)
            res.cmds.append(' '.join(cmd))
            if rc != 0:
                raise Undecided('goto-instrument --dfcc failed: ' + (err + out)[-2500:])
            cur = gb1
        else:
            if job.get('loop_contracts'):
                gb1 = os.path.join(jd, 'b.gb')
                cmd = ['goto-instrument', '--apply-loop-contracts', cur, gb1]
                rc, out, err, dt = sh(cmd, 600)
                res.cmds.append(' '.join(cmd))
                if rc != 0:
                    raise Undecided('goto-instrument --apply-loop-contracts failed: ' + (err + out)[-2500:])
                cur = gb1
        if job.get('unwindset') or job.get('unwind'):
            gb2 = os.path.join(jd, 'c.gb')
            cmd = ['goto-instrument']
            if job.get('unwind'):
                cmd += ['--unwind', str(job['unwind'])]
            if job.get('unwindset'):
                cmd += ['--unwindset', job['unwindset']]
            cmd += ['--unwinding-assertions', cur, gb2]
            rc, out, err, dt = sh(cmd, 600)
            res.cmds.append(' '.join(cmd))
            if rc != 0:
                raise Undecided('goto-instrument unwind failed: ' + (err + out)[-1500:])
            cur = gb2
        res.files['gb'] = cur
        # 3. cbmc
        flags, env = solver_flags(job.get('solver'), workdir)
        checks = job.get('checks', DEFAULT_CHECKS)
        cmd = ['cbmc', cur, '--object-bits', str(job.get('objbits', 10)), '--no-malloc-may-fail'] + checks + flags
        if mode == 'harness':
            cmd += ['--unwind', str(job.get('harness_unwind', 8)), '--unwinding-assertions']
        for p in job.get('properties', []):
            cmd += ['--property', p]
        if job.get('cbmc_flags'):
            cmd += job['cbmc_flags']
        nsplit = int(job.get('split', 0) or 0)
        if nsplit > 1 and not job.get('properties'):
            # one group of obligations per solver call (all-properties mode re-solves incrementally and can be far slower)
            rc0, out0, err0, dt0 = sh(['cbmc', cur, '--show-properties', '--json-ui'] + checks, 300)
            names = []
            try:
                for x in json.loads(out0):
                    if 'properties' in x:
                        names = [p['name'] for p in x['properties']]
            except Exception:
                raise Undecided('cannot list properties for split: ' + (err0 or out0)[-500:])
            if not names:
                raise Undecided('vacuity guard: zero obligations listed')
            groups = [names[i::nsplit] for i in range(nsplit)]
            groups = [g for g in groups if g]
            t0 = time.time()

            def one(g):
                c = list(cmd)
                for p in g:
                    c += ['--property', p]
                return sh(c, job.get('timeout', 300), env=env)
            with ThreadPoolExecutor(max_workers=min(len(groups), int(job.get('split_par', 8)))) as ex:
                outs = list(ex.map(one, groups))
            res.cmds.append(' '.join(cmd) + '   # split into %d property groups' % len(groups))
            res.solver_seconds = time.time() - t0
            results, status, msgs = [], 'success', []
            for (rc, out, err, dt) in outs:
                if rc == -9:
                    raise Undecided('solver timeout after %ss (split group)' % job.get('timeout', 300))
                if rc == -8:
                    raise Undecided('solver killed: out of memory (split group)')
                r_, s_, m_ = parse_cbmc_text(out)
                if r_ is None or s_ is None or rc not in (0, 10):
                    raise Undecided('cbmc error rc=%s: %s' % (rc, ('\n'.join(m_ or []) or err or out)[-2000:]))
                results += r_
                msgs += m_
                if s_ != 'success':
                    status = s_
            out = ' '.join(m for m in msgs)
            res.log = '\n'.join(msgs)[-4000:]
            rc = 0 if status == 'success' else 10
        else:
            rc, out, err, dt = sh(cmd, job.get('timeout', 300), env=env)
            res.cmds.append(' '.join(cmd))
            res.solver_seconds = dt
            with open(os.path.join(jd, 'cbmc.txt'), 'w') as f:
                f.write(out)
            if rc == -9:
                raise Undecided('solver timeout after %ss' % job.get('timeout', 300))
            if rc == -8:
                raise Undecided('solver killed: out of memory')
            results, status, msgs = parse_cbmc_text(out)
            res.log = '\n'.join(msgs)[-4000:]
            if results is None or status is None or (rc not in (0, 10)):
                raise Undecided('cbmc error rc=%s: %s' % (rc, (res.log or err or out)[-2000:]))
        if 'ignoring forall' in out or 'ignoring exists' in out:
            if job.get('solver') not in ('z3', 'z3new', 'cvc5'):
                raise Undecided('SAT back end ignored a quantifier; result not trustworthy')
        for r in results:
            sl = r.get('sourceLocation', {})
            res.obligations.append(dict(name=r['property'], status=r['status'], description=r.get('description', ''),
                                        file=sl.get('file', ''), line=sl.get('line', ''), function=sl.get('function', '')))
        if mode == 'harness':
            can = [o for o in res.obligations if 'qx-canary' in o['description']]
            if not can or can[0]['status'] != 'FAILURE':
                raise Undecided('vacuity guard: harness canary did not fail (preconditions contradictory or end unreachable)')
            res.canary = 'failed-as-required'
            res.obligations = [o for o in res.obligations if 'qx-canary' not in o['description']]
        if not res.obligations:
            raise Undecided('vacuity guard: zero obligations generated')
        exp = job.get('must_have', [])
        names = ' '.join(o['name'] for o in res.obligations)
        for m in exp:
            if not re.search(m, names):
                raise Undecided('vacuity guard: expected obligation matching %r is missing' % m)
        und = [o for o in res.obligations if o['status'] not in ('SUCCESS', 'FAILURE')]
        if und and not any(o['status'] == 'FAILURE' for o in res.obligations):
            raise Undecided('obligation status %s for %s' % (und[0]['status'], und[0]['name']))
        nobody = [o for o in res.obligations if o['status'] == 'FAILURE' and 'undefined function should be unreachable' in o['description']]
        if nobody:
            # the code under contract now calls a function that has neither a body nor a contract here: nothing can be concluded
            raise Undecided('callee without body or contract is reachable: %s' % ', '.join(sorted(set(o['name'].rsplit('.assertion', 1)[0] for o in nobody))[:4]))
        tot, ok, bad = res.counts()
        if bad and mode in ('harness', 'raw') and all('.unwind.' in o['name'] for o in bad):
            raise Undecided('only unwinding assertions failed (%s): the stated unwinding bound of this job is too small' % bad[0]['name'])
        if bad and job.get('scope_re'):
            # the same modular proof serves two properties; each reports only the obligation classes that state it.
            # A failure confined to the other property's obligations leaves this one undecided (its proof rests on them).
            inscope = [o for o in bad if re.search(job['scope_re'], o['name'])]
            if not inscope:
                raise Undecided('only obligations outside the scope of this property failed (%s ...); %s' % (bad[0]['name'], job.get('scope_note', '')))
            res.obligations = [o for o in res.obligations if o['status'] != 'FAILURE' or o in inscope]
        res.status = 'pass' if not bad else 'fail'
    except Undecided as e:
        res.status = 'undecided'
        res.reason = str(e)
        if job.get('search_only') and 'solver timeout' in str(e):
            # bounded stand-in: a time-bounded SAT search for a counterexample to the contract (the proof itself does not finish)
            res.status = 'pass'
            res.reason = ''
            res.obligations = [dict(name='search.no-counterexample-within-%ss' % job.get('timeout'), status='SUCCESS',
                                    description='time-bounded search for a counterexample to the contract found none', file='', line='', function='')]
    except LowerError as e:
        res.status = 'undecided'
        res.reason = 'extraction-broken: ' + str(e)
    except Exception as e:
        import traceback
        res.status = 'undecided'
        res.reason = 'internal error: %r %s' % (e, traceback.format_exc()[-800:])
    res.seconds = time.time() - t_start
    return res


def run_sweep(job, res, jd, cfile, hname, workdir, t_start):
    """bounded stand-in: the same harness for every value of one scalar parameter (symbolic contents), values run in parallel"""
    flags, env = solver_flags(job.get('solver'), workdir)
    checks = job.get('checks', DEFAULT_CHECKS)
    param, values = job['sweep']
    t0 = time.time()

    def one(v):
        gb = os.path.join(jd, 'sw_%s.gb' % v)
        rc, out, err, dt = sh(['goto-cc', '--function', hname, cfile, '-o', gb, '-DQX_SWEEP=%s' % v], 120)
        if rc != 0:
            return v, None, 'goto-cc failed: ' + (err + out)[-500:]
        cmd = ['cbmc', gb, '--object-bits', str(job.get('objbits', 10)), '--no-malloc-may-fail', '--unwind', str(job.get('harness_unwind', 8)),
               '--unwinding-assertions'] + checks + flags
        rc, out, err, dt = sh(cmd, job.get('timeout', 300), env=env)
        try:
            os.remove(gb)
        except OSError:
            pass
        results, status, msgs = parse_cbmc_text(out)
        if results is None or status is None or rc not in (0, 10):
            return v, None, 'cbmc error rc=%s %s' % (rc, (err or out)[-300:])
        return v, results, ''
    with ThreadPoolExecutor(max_workers=int(job.get('sweep_par', 8))) as ex:
        outs = list(ex.map(one, values))
    res.cmds.append('for v in %s..%s: goto-cc -DQX_SWEEP=v; cbmc --unwind %s --unwinding-assertions %s' % (values[0], values[-1], job.get('harness_unwind', 8), ' '.join(checks + flags)))
    res.solver_seconds = time.time() - t0
    try:
        for v, results, err in outs:
            if results is None:
                raise Undecided('sweep value %s: %s' % (v, err))
            can = [r for r in results if 'qx-canary' in r.get('description', '')]
            if not can or can[0]['status'] != 'FAILURE':
                raise Undecided('vacuity guard: harness canary did not fail for %s=%s' % (param, v))
            for r in results:
                if 'qx-canary' in r.get('description', ''):
                    continue
                sl = r.get('sourceLocation', {})
                res.obligations.append(dict(name='%s=%s:%s' % (param, v, r['property']), status=r['status'], description=r.get('description', ''),
                                            file=sl.get('file', ''), line=sl.get('line', ''), function=sl.get('function', '')))
        res.canary = 'failed-as-required'
        if not res.obligations:
            raise Undecided('vacuity guard: zero obligations')
        und = [o for o in res.obligations if o['status'] not in ('SUCCESS', 'FAILURE')]
        if und and not any(o['status'] == 'FAILURE' for o in res.obligations):
            raise Undecided('obligation status %s for %s' % (und[0]['status'], und[0]['name']))
        fails = [o for o in res.obligations if o['status'] == 'FAILURE']
        if fails and all('.unwind.' in o['name'] for o in fails):
            raise Undecided('only unwinding assertions failed (%s): the stated unwinding bound of this bounded job is too small' % fails[0]['name'])
        res.status = 'fail' if fails else 'pass'
    except Undecided as e:
        res.status = 'undecided'
        res.reason = str(e)
    res.seconds = time.time() - t_start
    return res


_cap_lock = threading.Condition()
_cap = {'free': 16}


def run_job_weighted(job, unit, workdir):
    w = min(int(job.get('weight', min(8, int(job.get('split', 1) or 1)))), 16)
    with _cap_lock:
        while _cap['free'] < w:
            _cap_lock.wait()
        _cap['free'] -= w
    try:
        return run_job(job, unit, workdir)
    finally:
        with _cap_lock:
            _cap['free'] += w
            _cap_lock.notify_all()


def run_jobs(jobs_units, workdir, par=16, log=print):
    out = []
    _cap['free'] = par
    with ThreadPoolExecutor(max_workers=max(par, 4) * 2) as ex:
        futs = [(j, ex.submit(run_job_weighted, j, u, workdir)) for j, u in jobs_units]
        for j, f in futs:
            r = f.result()
            tot, ok, bad = r.counts()
            log('  job %-46s %-9s %3d/%-3d %6.1fs %s' % (r.name, r.status, ok, tot, r.seconds, (r.reason or '')[:300].replace('\n', ' ')))
            out.append(r)
    return out
