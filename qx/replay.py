#!/usr/bin/env python3
"""qx.replay -- concretisation harness (bounded, only to obtain a small failing input from CBMC),
native replay against the real C++ headers, and the lowering-validation differential run."""
import os, re, json, subprocess, sys, time

HERE = os.path.dirname(os.path.abspath(__file__))
sys.path.insert(0, HERE)
from lower import CType, LowerError  # noqa


def deimply(s):
    """rewrite CBMC's `a ==> b` into (!(a) || (b)) so that the same clause text compiles natively"""
    # process innermost parentheses first via recursion on top-level groups
    out, i, n = '', 0, len(s)
    # rewrite nested groups
    res = ''
    depth = 0
    start = None
    parts = []
    buf = ''
    while i < n:
        ch = s[i]
        if ch == '(':
            if depth == 0:
                start = i
                parts.append(buf)
                buf = ''
            depth += 1
            if depth > 1:
                buf += ch
        elif ch == ')':
            depth -= 1
            if depth == 0:
                parts.append('(' + deimply(buf) + ')')
                buf = ''
            else:
                buf += ch
        else:
            buf += ch
        i += 1
    parts.append(buf)
    flat = ''.join(parts)
    # now split flat at top-level ==> (parenthesised groups are already rewritten and contain no ==>)
    segs = split_top_imp(flat)
    if len(segs) == 1:
        return flat
    r = segs[-1]
    for lhs in reversed(segs[:-1]):
        r = '(!(%s) || (%s))' % (lhs.strip(), r.strip())
    return r


def split_top_imp(s):
    segs, depth, cur, i = [], 0, '', 0
    while i < len(s):
        if s[i] in '([{':
            depth += 1
        elif s[i] in ')]}':
            depth -= 1
        if depth == 0 and s.startswith('==>', i):
            segs.append(cur)
            cur = ''
            i += 3
            continue
        cur += s[i]
        i += 1
    segs.append(cur)
    return segs


def find_olds(clauses):
    """returns (clauses with __CPROVER_old(e) replaced by qx_old_i, [(name, expr)])"""
    olds = []
    out = []
    for c in clauses:
        while True:
            k = c.find('__CPROVER_old(')
            if k < 0:
                break
            j = k + len('__CPROVER_old(')
            depth = 1
            while depth:
                if c[j] == '(':
                    depth += 1
                elif c[j] == ')':
                    depth -= 1
                j += 1
            e = c[k + len('__CPROVER_old('):j - 1]
            nm = None
            for (n0, e0) in olds:
                if e0 == e:
                    nm = n0
            if nm is None:
                nm = 'qx_old_%d' % len(olds)
                olds.append((nm, e))
            c = c[:k] + nm + c[j:]
        out.append(c)
    return out, olds


def leaves(lw, path, t, acc):
    """flatten an lvalue of CType t into scalar leaves [(path, CType)]"""
    if t.is_array():
        n = int(t.derivs[-1][1])
        for i in range(n):
            leaves(lw, '%s[%d]' % (path, i), t.deref(), acc)
        return
    if t.is_record():
        rec = t.rec
        if rec is None:
            return
        record_leaves(lw, path, rec, acc)
        return
    if t.is_ptr():
        return  # pointers inside inputs are set up by the spec's own harness_setup
    acc.append((path, t))


def record_leaves(lw, path, rec, acc):
    is_union = rec.get('tagUsed') == 'union'
    members = []   # list of leaf lists, one per member
    for i, b in enumerate(rec.get('bases', []) or []):
        sub = []
        leaves(lw, path + ('.qx_base%d' % i if i else '.qx_base'), lw.ctype(b['type']), sub)
        members.append(sub)
    anon = [c for c in rec.get('inner', []) if c.get('kind') == 'CXXRecordDecl' and not c.get('name') and c.get('completeDefinition')]
    for f in rec.get('inner', []):
        if f.get('kind') != 'FieldDecl':
            continue
        sub = []
        if f.get('name'):
            leaves(lw, path + '.' + f['name'], lw.ctype(f['type']), sub)
        elif anon:
            record_leaves(lw, path, anon.pop(0), sub)   # C11 anonymous member: same path
        members.append(sub)
    if is_union:
        best = max(members, key=lambda m: sum(lw.sizeof(t) for _, t in m)) if members else []
        acc.extend(best)
    else:
        for m in members:
            acc.extend(m)


class HarnessGen:
    """builds the bounded harness from a function spec.  Used for (a) CBMC concretisation with --trace and
    (b) the native replay; both compile the same text."""

    def __init__(self, lw, fn, spec, ghosts, K=6, fixed=None):
        self.lw, self.fn, self.spec, self.ghosts, self.K = lw, fn, spec, ghosts, K
        self.fixed = fixed or {}
        self.inputs = []   # [(in_name, ctype string)]
        self.paths = {}
        self.lines = []

    def new_input(self, t, path='?'):
        nm = 'in_%d' % len(self.inputs)
        self.inputs.append((nm, t.cast()))
        self.paths[nm] = path
        return nm

    def fill(self, path, t):
        acc = []
        leaves(self.lw, path, t, acc)
        for p, lt in acc:
            nm = self.new_input(lt, p)
            if p in self.fixed:
                self.lines.append('  QX_FIXED(%s, %s, %s); %s = %s;' % (lt.cast(), nm, self.fixed[p], p, nm))
            else:
                self.lines.append('  QX_INPUT(%s, %s); %s = %s;' % (lt.cast(), nm, p, nm))

    def build(self):
        info = self.lw.fn_info[self.fn]
        spec = self.spec
        bufs = {b[0]: b[1] for b in spec.get('buffers', [])}
        buf_et = {b[0]: b[2] for b in spec.get('buffers', []) if len(b) > 2}
        refs = set(spec.get('refs', []))
        L = self.lines
        for (t, g) in self.ghosts:
            if '[' in g or '*' in t:
                continue
            ct = self.lw.ctype(t) if not isinstance(t, CType) else t
            nm = self.new_input(ct, 'ghost ' + g)
            if g in self.fixed:
                L.append('  QX_FIXED(%s, %s, %s); %s = %s;' % (ct.cast(), nm, self.fixed[g], g, nm))
            else:
                L.append('  QX_INPUT(%s, %s); %s = %s;' % (ct.cast(), nm, g, nm))
        args = []
        later = []
        alias = spec.get('harness_alias', {})
        for nm, t, isref in info['params']:
            if nm in alias:
                L.append('  %s = %s;' % (t.decl(nm, keep_const=False), alias[nm]))
                args.append(nm)
                continue
            if nm in bufs:
                later.append((nm, t))
                args.append(nm)
            elif isref or nm in refs or (t.is_ptr() and t.deref().is_record()):
                ot = t.deref()
                L.append('  %s;' % ot.decl('o_' + nm, keep_const=False))
                self.fill('o_' + nm, ot)
                L.append('  %s = &o_%s;' % (t.decl(nm, keep_const=False), nm))
                args.append(nm)
            elif t.is_ptr():
                raise LowerError('harness: pointer parameter %s of %s is not declared as a buffer' % (nm, self.fn))
            else:
                L.append('  %s;' % t.decl(nm, keep_const=False))
                self.fill(nm, t)
                args.append(nm)
        # scalar-only preconditions first: they fix buffer lengths before anything is allocated
        ptr_names = [nm for nm, t, isref in info['params'] if nm in bufs or isref or nm in refs or t.is_ptr()]
        early = set()
        for r in spec.get('requires', []):
            if '__CPROVER_is_fresh' in r:
                continue
            if not any(re.search(r'\b%s\b' % re.escape(pn), r) for pn in ptr_names):
                L.append('  __CPROVER_assume(%s);' % deimply(r))
                early.add(r)
        for nm, t in later:
            et = t.deref() if nm not in buf_et else self.lw.ctype(buf_et[nm])
            cnt = bufs[nm]
            L.append('  __CPROVER_assume((%s) <= %d);' % (cnt, self.K))
            L.append('  %s = QX_ALLOC(((__CPROVER_size_t)(%s)) * sizeof(%s));' % (t.decl(nm, keep_const=False), cnt, et.cast()))
            for i in range(self.K):
                inm = self.new_input(et, '%s[%d]' % (nm, i))
                L.append('  QX_INPUT(%s, %s); if (%d < (%s)) ((%s *)%s)[%d] = %s;' % (et.cast(), inm, i, cnt, et.cast(), nm, i, inm))
        for ob in spec.get('obj_buffers', []):
            (lv, cnt, ety) = ob[:3]
            et = self.lw.ctype(ety)
            L.append('  __CPROVER_assume((%s) <= %d);' % (cnt, self.K))
            L.append('  %s = malloc(((__CPROVER_size_t)(%s)) * sizeof(%s));' % (lv, cnt, et.cast()))
            for i in range(self.K):
                inm = self.new_input(et, '%s[%d]' % (lv, i))
                L.append('  QX_INPUT(%s, %s); if (%d < (%s)) ((%s *)%s)[%d] = %s;' % (et.cast(), inm, i, cnt, et.cast(), lv, i, inm))
        for s in spec.get('harness_setup', []):
            L.append('  ' + s)
        for r in spec.get('requires', []):
            if '__CPROVER_is_fresh' in r or r in early:
                continue
            if getattr(self, 'native_skip_bv_requires', getattr(self, 'native_skip_ensures', False)) and 'bv_t' in r:
                L.append('#ifndef QX_NATIVE')
                L.append('  __CPROVER_assume(%s);' % deimply(r))
                L.append('#endif')
                continue
            L.append('  __CPROVER_assume(%s);' % deimply(r))
        ens, olds = find_olds([deimply(e) for e in spec.get('ensures', [])])
        for nm, e in olds:
            L.append('  __typeof__(%s) %s = %s;' % (e, nm, e))
        ret = info['ret']
        isvoid = ret.base == 'void' and not ret.derivs
        ghostret = bool(spec.get('ghost_returns')) or getattr(self, 'always_both', False) or bool(spec.get('native_both'))
        objs = [(nm, t) for nm, t, isref in info['params'] if not (nm in bufs) and nm not in alias and (isref or nm in refs or (t.is_ptr() and t.deref().is_record()))]
        # ---- native only: run the REAL function on clones first when the postcondition needs ghost code
        L.append('#ifdef QX_NATIVE')
        L.append('  QX_STARTED();')
        rargs = []
        for nm, t, isref in info['params']:
            if nm in bufs:
                et = t.deref() if nm not in buf_et else self.lw.ctype(buf_et[nm])
                L.append('  %s = malloc(((size_t)(%s)) * sizeof(%s) + 1);' % (t.decl('r_' + nm, keep_const=False), bufs[nm], et.cast()))
                L.append('  if ((%s) != 0) memcpy((void *)r_%s, %s, ((size_t)(%s)) * sizeof(%s));' % (bufs[nm], nm, nm, bufs[nm], et.cast()))
                L.append('  if ((%s) != 0) r_%s = realloc((void *)r_%s, ((size_t)(%s)) * sizeof(%s)); else r_%s = QX_ALLOC(0);' % (bufs[nm], nm, nm, bufs[nm], et.cast(), nm))
                rargs.append('r_' + nm)
            elif nm in alias:
                rargs.append('&ro_' + alias[nm] if any(o[0] == alias[nm] for o in objs) else alias[nm])
            elif (nm, t) in objs:
                L.append('  %s = o_%s;' % (t.deref().decl('ro_' + nm, keep_const=False), nm))
                for ob in spec.get('obj_buffers', []):
                    (lv, cnt, ety) = ob[:3]
                    if lv.startswith('o_%s.' % nm):
                        rlv = 'r' + lv
                        L.append('  %s = malloc(((size_t)(%s)) * sizeof(%s) + 1); if ((%s) != 0) memcpy((void *)%s, %s, ((size_t)(%s)) * sizeof(%s));' % (
                            rlv, cnt, ety, cnt, rlv, lv, cnt, ety))
                rargs.append('&ro_' + nm)
            else:
                rargs.append(nm)
        if ghostret:
            for (gt, g) in self.ghosts:
                if '[' not in g:
                    L.append('  __typeof__(%s) qx_save_%s = %s;' % (g, g, g))
            if isvoid:
                L.append('  qx_real_%s(%s);' % (self.fn, ', '.join(rargs)))
            else:
                L.append('  %s = qx_real_%s(%s);' % (ret.decl('qx_real_ret', keep_const=False), self.fn, ', '.join(rargs)))
            for (gt, g) in self.ghosts:
                if '[' not in g:
                    L.append('  %s = qx_save_%s;' % (g, g))
        L.append('#endif')
        call_low = '%s(%s)' % (self.fn, ', '.join(args))
        call_real = 'qx_real_%s(%s)' % (self.fn, ', '.join(args))
        if ghostret:
            if isvoid:
                L.append('  %s;' % call_low)
            else:
                L.append('  %s = %s;' % (ret.decl('qx_ret', keep_const=False), call_low))
            L.append('#ifdef QX_NATIVE')
            if not isvoid and not ret.is_record() and not ret.derivs:
                L.append('  if (qx_ret != qx_real_ret) { QX_MISMATCH("return value"); }')
            for rf in (spec.get('ret_fields') or []) if (not isvoid and ret.is_record()) else []:
                L.append('  if (qx_ret.%s != qx_real_ret.%s) { QX_MISMATCH("returned %s"); }' % (rf, rf, rf))
            for nm, t in objs:
                acc = []
                leaves(self.lw, 'o_' + nm, t.deref(), acc)
                for pth, lt in acc:
                    L.append('  if (%s != r%s) { QX_MISMATCH("object field %s"); }' % (pth, pth, pth))
                for ob in spec.get('obj_buffers', []):
                    (lv, cnt, ety) = ob[:3]
                    if len(ob) > 3:
                        cnt = ob[3]     # number of elements that carry meaning after the call (e.g. the logical length, not the capacity)
                    if lv.startswith('o_%s.' % nm):
                        rcnt = re.sub(r'\bo_%s\.' % nm, 'ro_%s.' % nm, cnt)
                        L.append('  if (%s != 0 && r%s != 0 && (%s) == (%s) && memcmp(%s, r%s, ((size_t)(%s)) * sizeof(%s)) != 0) { QX_MISMATCH("contents of %s"); }' % (
                            lv, lv, cnt, rcnt, lv, lv, cnt, ety, lv))
            for nm, cnt in bufs.items():
                esz = ('sizeof(%s)' % self.lw.ctype(buf_et[nm]).cast()) if nm in buf_et else 'sizeof(*%s)' % nm
                L.append('  if ((%s) != 0 && memcmp(%s, r_%s, ((size_t)(%s)) * %s) != 0) { QX_MISMATCH("buffer %s"); }' % (cnt, nm, nm, cnt, esz, nm))
            L.append('#endif')
        else:
            L.append('#ifdef QX_NATIVE')
            L.append('  %s%s;' % ('' if isvoid else ret.decl('qx_ret', keep_const=False) + ' = ', call_real))
            L.append('#else')
            L.append('  %s%s;' % ('' if isvoid else ret.decl('qx_ret', keep_const=False) + ' = ', call_low))
            L.append('#endif')
        if getattr(self, 'native_skip_ensures', False):
            L.append('#ifndef QX_NATIVE')
        for i, e in enumerate(ens):
            e = e.replace('__CPROVER_return_value', 'qx_ret')
            L.append('  __CPROVER_assert(%s, "ensures.%d");' % (e, i + 1))
        if getattr(self, 'native_skip_ensures', False):
            L.append('#endif')
        L.append('  QX_CANARY();')
        L.append('  QX_DONE();')
        # prototype of the real function (native only)
        L0 = ['#ifdef QX_NATIVE', self.lw.proto(info['node']).replace(self.fn + '(', 'qx_real_' + self.fn + '(', 1) + ';', '#endif']
        self.pre_decl = '\n'.join(L0) + '\n'
        decl = ''.join('%s %s;\n' % (t, n) for n, t in self.inputs)
        return (decl + self.pre_decl + 'void qx_harness(void)\n{\n' + '\n'.join(L) + '\n}\n')


VALIDATE_PRE = r'''
#include <stdio.h>
#include <stdlib.h>
#include <string.h>
#include <stdint.h>
static int qx_failed = 0;
static unsigned long long qx_state = 88172645463325252ULL;
static unsigned long long qx_rand(void) { qx_state ^= qx_state << 13; qx_state ^= qx_state >> 7; qx_state ^= qx_state << 17; return qx_state; }
/* small values, boundary values and wild values in a mix */
static unsigned long long qx_pick(void) { unsigned long long r = qx_rand(); switch (r & 7) { case 0: case 1: case 2: return (r >> 8) & 7; case 3: return (r >> 8) & 0xff; case 4: return ~0ULL - ((r >> 8) & 3); case 5: return 1ULL << ((r >> 8) & 63); default: return qx_rand(); } }
#define __CPROVER_assume(c) do { if (!(c)) { qx_skipped++; return; } } while (0)
#define __CPROVER_assert(c, m) do { (void)(c); } while (0)
#define __CPROVER_size_t size_t
#define __CPROVER_w_ok(p, n) 1
#define __CPROVER_r_ok(p, n) 1
#define __CPROVER_same_object(a, b) 1
#define QX_ALLOC(n) malloc(n)
#define QX_INPUT(T, n) n = (T)qx_pick()
#define QX_FIXED(T, n, v) n = (T)(v)
#define QX_CANARY()
#define QX_STARTED()
static unsigned long qx_mism = 0;
#define QX_MISMATCH(w) do { if (qx_mism < 3) printf("QX-LOWERING-MISMATCH %s\n", w); qx_mism++; } while (0)
#define QX_DONE() do { qx_done++; } while (0)
static unsigned long qx_skipped = 0, qx_done = 0;
'''

NATIVE_PRE = r'''
#include <stdio.h>
#include <stdlib.h>
#include <string.h>
static int qx_failed = 0;
#define __CPROVER_assume(c) do { if (!(c)) { printf("QX-ASSUME-FALSE %s\n", #c); exit(3); } } while (0)
#define __CPROVER_assert(c, m) do { if (!(c)) { printf("QX-ASSERT-FAILED %s\n", m); qx_failed = 1; } } while (0)
#define __CPROVER_size_t size_t
#define __CPROVER_w_ok(p, n) 1
#define __CPROVER_r_ok(p, n) 1
#define __CPROVER_same_object(a, b) 1
/* an empty buffer is a pointer one past a 1-byte block, so that the sanitizer flags any access to it */
#define QX_ALLOC(n) ((n) ? malloc(n) : (void *)((char *)malloc(1) + 1))
#define QX_INPUT(T, n) n = (T)QX_VAL_##n
#define QX_FIXED(T, n, v) n = (T)QX_VAL_##n
#define QX_CANARY()
#define QX_STARTED() do { printf("QX-START\n"); fflush(stdout); } while (0)
#define QX_MISMATCH(w) printf("QX-LOWERING-MISMATCH %s\n", w)
#define QX_DONE() do { printf(qx_failed ? "QX-RESULT fail\n" : "QX-RESULT pass\n"); } while (0)
'''

CBMC_PRE = r'''
#define QX_ALLOC(n) malloc(n)
#define QX_INPUT(T, n) { T qx_nd; n = qx_nd; }
#define QX_FIXED(T, n, v) n = (T)(v)
#define QX_DONE()
#ifdef QX_WITH_CANARY
#define QX_CANARY() __CPROVER_assert(0, "qx-canary: harness end is reachable under the preconditions")
#else
#define QX_CANARY()
#endif
'''


def trace_inputs(cbmc_json_text, input_names):
    """pull the last assigned value of each in_N out of the first failing trace"""
    data = json.loads(cbmc_json_text)
    tops = [dict(x, status='FAILURE') for x in data if isinstance(x, dict) and 'trace' in x and str(x.get('status', '')).lower() in ('failure', 'failed')]
    if tops:
        data = list(data) + [{'result': tops}]
    for x in data:
        if 'result' not in x:
            continue
        cands = [r for r in x['result'] if r.get('status') == 'FAILURE' and 'trace' in r and 'unwind' not in r.get('property', '')]
        cands.sort(key=lambda r: (0 if 'qx_harness.assertion' in r['property'] else 1))
        for r in cands[:1]:
            if True:
                vals = {}
                for st in r['trace']:
                    if st.get('stepType') == 'assignment' and st.get('lhs') in input_names:
                        v = st.get('value', {})
                        if 'binary' in v:
                            vals[st['lhs']] = int(v['binary'], 2)
                        elif v.get('data') in ('TRUE', 'FALSE'):
                            vals[st['lhs']] = 1 if v['data'] == 'TRUE' else 0
                        elif 'data' in v:
                            try:
                                vals[st['lhs']] = int(re.sub(r'[uUlL]+$', '', v['data']))
                            except ValueError:
                                pass
                return r['property'], r.get('description', ''), vals
    return None, None, None


def cxx_call(info, args):
    """C++ expression calling the real function described by info with C-level args"""
    q = info['qualname']
    node = info['node']
    ps = [p for p in info['params']]
    kind = info['kind']
    cargs = []
    start = 1 if info['is_method'] else 0
    cpp_ps = [p for p in node.get('inner', []) if p.get('kind') == 'ParmVarDecl']
    for i, ((nm, t, isref), a) in enumerate(list(zip(ps, args))[start:]):
        if isref and t.derivs and t.derivs[-1][0] == 'rref' and i < len(cpp_ps):
            ct = cpp_ps[i]['type'].get('desugaredQualType') or cpp_ps[i]['type']['qualType']
            cargs.append('static_cast<%s>(*%s)' % (ct, a))
        elif isref:
            cargs.append('*' + a)
        elif not t.derivs and not t.is_record() and i < len(cpp_ps):
            ct = cpp_ps[i]['type'].get('desugaredQualType') or cpp_ps[i]['type']['qualType']
            cargs.append('(%s)(%s)' % (ct, a))
        else:
            cargs.append(a)
    if info['is_method']:
        leaf = node.get('name')
        if kind == 'CXXConstructorDecl':
            return 'new (%s) %s(%s)' % (args[0], q.rsplit('::', 1)[0], ', '.join(cargs))
        if kind == 'CXXDestructorDecl':
            return '%s->~%s()' % (args[0], node.get('name').lstrip('~'))
        ta = q.rsplit('::', 1)[1][len(leaf):] if q.rsplit('::', 1)[1].startswith(leaf) else ''
        if kind == 'CXXConversionDecl':
            return '%s->%s()' % (args[0], leaf)
        if leaf.startswith('operator') and ta:
            return '%s->template %s%s(%s)' % (args[0], leaf, ta, ', '.join(cargs))
        if ta:
            return '%s->template %s%s(%s)' % (args[0], leaf, ta, ', '.join(cargs))
        return '%s->%s(%s)' % (args[0], leaf, ', '.join(cargs))
    leaf = node.get('name', '')
    if leaf.startswith('operator') and kind == 'FunctionDecl':
        return '%s(%s)' % (leaf, ', '.join(cargs))     # in-class friend: found by argument-dependent lookup only
    return '%s(%s)' % (q, ', '.join(cargs))


def cxx_type(t, lw_types):
    """C++ spelling of a lowered CType for wrapper signatures"""
    return t


def wrapper_cpp(lw, driver_path, wrap_fns, stub_fns, ast=None, real_fns=()):
    """C++ TU: includes the instantiation driver and exports each real function under its lowered C name;
    cut functions (QV::*) are defined to forward to the C stubs."""
    L = ['#include "%s"' % driver_path, '#include <new>', '#include <cstdlib>', 'using namespace Qentem;', '']

    def cxx_param(t, nm, info_node=None):
        # spell record types by their C++ qualified name
        def base_cxx(ct):
            if ct.kind == 'record' and ct.rec is not None:
                return lw.ast.qualname(ct.rec)
            m = {'_Bool': 'bool', 'qx_char16': 'char16_t', 'qx_char32': 'char32_t', 'qx_wchar': 'wchar_t'}
            return m.get(ct.base, ct.base)
        s = ('const ' if t.base_const else '') + base_cxx(t)
        for dv in t.derivs:
            if dv[0] in ('ptr', 'ref', 'rref'):
                s += ' *'
            else:
                raise LowerError('array parameter in wrapper')
        return s + ' ' + nm

    for fn in list(wrap_fns) + [('=', f) for f in real_fns]:
        export = 'qx_real_'
        if isinstance(fn, tuple):
            export, fn = '', fn[1]      # a cut callee exported under its lowered C name: the lowered caller links the real code
        info = lw.fn_info[fn]
        ps = info['params']
        sig = ', '.join(cxx_param(t, nm) for nm, t, r in ps)
        ret = info['ret']
        rets = cxx_param(ret, '').strip()
        call = cxx_call(info, [nm for nm, t, r in ps])
        if ret.base == 'void' and not ret.derivs:
            body = '%s;' % call
        elif ret.is_ref():
            body = 'return &(%s);' % call
        elif not ret.derivs and not ret.is_record():
            body = 'return (%s)(%s);' % (rets, call)
        else:
            body = 'return %s;' % call
        L.append('extern "C" %s %s%s(%s) { %s }' % (rets, export, fn, sig or 'void', body))
    for fn in stub_fns:
        info = lw.fn_info[fn]
        ps = info['params']
        node = info['node']
        ret = info['ret']
        rets = cxx_param(ret, '').strip()
        csig = ', '.join(cxx_param(t, nm) for nm, t, r in ps)
        L.append('extern "C" %s %s(%s);' % (rets, fn, csig or 'void'))
        if not info['qualname'].startswith('QV::'):
            # a cut callee that has a real body in the library: the native replay runs the real callee
            continue
        if info['is_method']:
            cls = lw.ast.qualname(lw.class_of(node))
            mps = ps[1:]
            q = info['qualname']
            const = ' const' if re.search(r'\) const', node['type']['qualType']) else ''
            noex = ' noexcept' if 'noexcept' in node['type']['qualType'] else ''
            # original C++ parameter types from the AST
            cpp_ps = [p for p in node.get('inner', []) if p.get('kind') == 'ParmVarDecl']
            decl_ps = ', '.join('%s a%d' % (p['type']['qualType'], i) for i, p in enumerate(cpp_ps))
            fwd = ', '.join(['const_cast<%s *>(this)' % cls] + [('&a%d' % i if mps[i][2] else 'a%d' % i) for i in range(len(cpp_ps))])
            rt = lw.ret_type_str(node)
            L.append('template <> %s %s::%s(%s)%s%s { %s ::%s(%s); }' % (
                rt, cls, node['name'], decl_ps, const, noex, '' if rt == 'void' else 'return', fn, fwd))
        else:
            raise LowerError('free-function stubs are not supported in native replay')
    # every other member of the verification stub types gets an aborting definition so that the replay links
    if ast is not None:
        done = set(lw.fn_info[f]['mangled'] for f in stub_fns if lw.fn_info[f]['qualname'].startswith('QV::'))
        seen = set()
        for n in list(ast.by_id.values()):
            if n.get('kind') != 'CXXMethodDecl' or n.get('isImplicit') or 'mangledName' not in n:
                continue
            if n['mangledName'] in done or n['mangledName'] in seen or n['mangledName'] in ast.fn_def:
                continue
            par = ast.parent.get(id(n))
            if par is None or par.get('kind') not in ('CXXRecordDecl', 'ClassTemplateSpecializationDecl'):
                continue
            gp = ast.parent.get(id(par))
            if par.get('kind') == 'CXXRecordDecl' and gp is not None and gp.get('kind') == 'ClassTemplateDecl':
                continue
            try:
                cls = ast.qualname(par)
            except LowerError:
                continue
            if not cls.startswith('QV::'):
                continue
            seen.add(n['mangledName'])
            ft = n['type']['qualType']
            const = ' const' if re.search(r'\) const', ft) else ''
            noex = ' noexcept' if 'noexcept' in ft else ''
            cpp_ps = [p for p in n.get('inner', []) if p.get('kind') == 'ParmVarDecl']
            decl_ps = ', '.join('%s a%d' % (p['type']['qualType'], i) for i, p in enumerate(cpp_ps))
            rt = lw.ret_type_str(n)
            tmpl = 'template <> ' if par.get('kind') == 'ClassTemplateSpecializationDecl' else ''
            L.append('%s%s %s::%s(%s)%s%s { std::abort(); }' % (tmpl, rt, cls, n['name'], decl_ps, const, noex))
    return '\n'.join(L) + '\n'


def run(cmd, timeout=300, cwd=None, env=None):
    try:
        r = subprocess.run(cmd, stdout=subprocess.PIPE, stderr=subprocess.STDOUT, timeout=timeout, cwd=cwd, env=env)
        return r.returncode, r.stdout.decode(errors='replace')
    except subprocess.TimeoutExpired:
        return -9, 'TIMEOUT'
