#!/usr/bin/env python3
"""check <PROPERTY-ID> [--tier quick|thorough]   |   check --replay <path>

exit 0: every registered obligation discharged (KNOWN-FINDING lines for open findings)
exit 1: VIOLATION property=<id> replay=<path>[ no-failing-input-found]
exit 2: undecided (extraction broke, solver gave up, vacuity guard tripped) -- never a pass, never a violation
"""
import os, sys, json, time, re, shutil, tempfile, importlib.util, argparse, subprocess, traceback

HERE = os.path.dirname(os.path.abspath(__file__))
VERIF = os.path.dirname(HERE)
sys.path.insert(0, HERE)
import run as R          # noqa
import replay as RP      # noqa
from lower import LowerError  # noqa


def load_spec(pid):
    path = os.path.join(VERIF, 'specs', pid + '.py')
    sp = importlib.util.spec_from_file_location('spec_' + pid, path)
    m = importlib.util.module_from_spec(sp)
    sys.path.insert(0, os.path.join(VERIF, 'specs'))
    sp.loader.exec_module(m)
    return m


def load_known():
    p = os.path.join(VERIF, 'known_findings.json')
    if not os.path.exists(p):
        return []
    return json.load(open(p)).get('findings', [])


def concretise(job, unit, res, workdir, log):
    """second, bounded run of a failing job to obtain a small concrete input, then native replay.
    returns dict(obligation, cex_inputs, reproduced, native_output, harness)"""
    out = dict(inputs=None, reproduced=False, native_output='', note='')
    if job.get('cex_skip'):
        out['note'] = 'no bounded search for this job: ' + str(job['cex_skip'])
        return out
    try:
        ast = R.get_ast(workdir, unit['driver'], unit.get('defines', ()), unit.get('cflags', ()))
        specs = {k: R.expand_spec(v) for k, v in job.get('specs', {}).items()}
        fn = job['fn']
        # lowered text without contracts; real callee bodies are used where they exist
        # ghost-return instrumentation must stay (postconditions mention the ghosts)
        gspecs = {k: {kk: vv for kk, vv in v.items() if kk in ('ghost_returns',)} for k, v in job.get('specs', {}).items()}
        # mutual recursion: the function under test and its direct callees keep their real bodies; calls made by those callees
        # back into the recursive group go to contract stubs (spec key cex_stub), which keeps the bounded search small.
        # Whatever input is found is replayed on the real code, which alone decides.
        rec = [h for h in job.get('cex_recursive', ())]
        rename = {g: {h: h + '_cexstub' for h in rec} for g in rec if g != fn} if rec else None
        text, lw = R.lowered_text(ast, job['roots'], gspecs, cuts=job.get('cuts', ()), line_directives=False, drop_contracts=True, cut_qual=job.get('cut_qual', ()),
                                  call_rename=rename, uncut_qual=job.get('uncut_qual', ()))
        fwd = ''
        for h in rec:
            if h in lw.fn_info and job['specs'].get(h, {}).get('cex_stub'):
                pr = lw.proto(lw.fn_info[h]['node']).replace(h + '(', h + '_cexstub(', 1)
                fwd += pr + ';\n'
                text += '\n' + pr + '\n{\n' + job['specs'][h]['cex_stub'] + '\n}\n'
            elif h in lw.fn_info:
                out['note'] = 'no cex_stub for recursive callee %s' % h
                return out
        if fwd:
            head_, mark_, rest_ = text.partition('/* ---- end types ---- */')
            text = head_ + mark_ + '\n' + fwd + rest_
        ghosts = job.get('ghosts', [])
        K = job.get('cex_K', 6)
        spec_fn = job['specs'][fn]
        info = lw.fn_info[fn]
        scalars = [nm for nm, t, isref in info['params'] if not t.derivs and not t.is_record()]
        count_ids = []
        gnames = [g for (t, g) in ghosts if '*' not in t and '[' not in g]
        for b in spec_fn.get('buffers', []):
            if (b[1] in scalars or b[1] in gnames) and b[1] not in count_ids:
                count_ids.append(b[1])
        for ob in spec_fn.get('obj_buffers', []):
            if ob[1] not in count_ids and re.fullmatch(r'[A-Za-z_][A-Za-z0-9_.]*', ob[1]):
                count_ids.append(ob[1])
        import itertools
        combos = [dict()]
        if count_ids and not job.get('cex_nosplit'):
            combos = [dict(zip(count_ids, v)) for v in itertools.product(range(K + 1), repeat=len(count_ids))]
            combos.sort(key=lambda d: sum(d.values()))
            # a precondition that pins a length makes most combinations vacuous; keep the list short
            combos = combos[:64]
        stubs = ''
        stub_fns = []
        real_fns = []
        for cn, inf in lw.fn_info.items():
            if not inf['has_body']:
                body = job.get('specs', {}).get(cn, {}).get('stub_body')
                if body is None:
                    out['note'] = 'no stub body for cut callee %s; cannot concretise' % cn
                    return out
                one = lw.proto(inf['node']) + '\n{\n' + body + '\n}\n'
                if not inf['qualname'].startswith('QV::') and ast.fn_def.get(inf['mangled']) is not None and job.get('cut_qual'):
                    # object code behind a contract: the stub is for the bounded search only; natively the real callee is linked
                    stubs += '#ifndef QX_NATIVE\n' + one + '#endif\n'
                    real_fns.append(cn)
                else:
                    stubs += one
                    stub_fns.append(cn)
        gtext = 'typedef unsigned short qx_char16;\ntypedef unsigned int qx_char32;\ntypedef int qx_wchar;\n' + ''.join('%s %s;\n' % (t, g) for t, g in ghosts)
        jd = os.path.join(workdir, 'cex_' + R.safe_name(job['name']))
        os.makedirs(jd, exist_ok=True)
        pre_c = '#ifdef QX_NATIVE\n' + job.get('native_pre', job.get('pre', '')) + '\n#else\n' + job.get('pre', '') + '\n#endif\n'
        flags, env = R.solver_flags('cadical', workdir)
        found = {}
        import threading
        stop = threading.Event()
        nhits = [0]

        def attempt(ix_fixed):
            ix, fixed = ix_fixed
            if stop.is_set():
                return None
            hg = RP.HarnessGen(lw, fn, spec_fn, ghosts, K=K, fixed=dict(job.get('fixed') or {}, **fixed))
            hg.native_skip_ensures = bool(job.get('native_skip_ensures'))
            htext = hg.build()
            body_c = gtext + pre_c + '\n' + text + '\n' + job.get('extra', '') + '\n' + stubs + '\n' + htext
            cfile = os.path.join(jd, 'cex_%d.c' % ix)
            with open(cfile, 'w') as f:
                f.write('#ifdef QX_NATIVE\n' + RP.NATIVE_PRE + '#include "inputs.h"\n#else\n' + RP.CBMC_PRE + '#endif\n' + body_c +
                        '\n#ifdef QX_NATIVE\nint main(void) { qx_harness(); return qx_failed; }\n#endif\n')
            gb = os.path.join(jd, 'cex_%d.gb' % ix)
            rc, o, e, dt = R.sh(['goto-cc', '--function', 'qx_harness', cfile, '-o', gb], 120)
            if rc != 0:
                return ('error', 'cex harness does not compile: ' + (e + o)[-800:])
            cmd = ['cbmc', gb, '--json-ui', '--trace', '--unwind', str(job.get('cex_unwind', K + 4)), '--no-unwinding-assertions',
                   '--object-bits', str(job.get('objbits', 10)), '--no-malloc-may-fail', '--stop-on-fail'] + job.get('checks', R.DEFAULT_CHECKS) + flags
            rc, o, e, dt = R.sh(cmd, job.get('cex_timeout', 300), env=env)
            if rc not in (0, 10):
                return ('error', 'concretisation run failed rc=%s %s' % (rc, (e or o)[-300:]))
            prop, desc, vals = RP.trace_inputs(o, set(n for n, t in hg.inputs))
            if prop is None:
                return None
            m_ = re.match(r'ensures\.(\d+)$', desc or '')
            if m_ and job.get('scope_re') and not re.search(job['scope_re'], '%s.postcondition.%s' % (fn, m_.group(1))):
                return None     # a postcondition that belongs to the other property sharing this proof
            nhits[0] += 1
            if nhits[0] >= 4:
                stop.set()
            return ('cex', (prop, desc, vals, hg, htext))
        from concurrent.futures import ThreadPoolExecutor
        errs = []
        hits = []
        with ThreadPoolExecutor(max_workers=12) as ex:
            for r_ in ex.map(attempt, list(enumerate(combos))):
                if r_ is None:
                    continue
                if r_[0] == 'cex':
                    hits.append(r_[1])
                elif r_[0] == 'error':
                    errs.append(r_[1])
        if not hits:
            out['note'] = ('bounded concretisation (K=%d, %d length combinations) found no failing input' % (K, len(combos))) + (('; errors: ' + errs[0]) if errs else '')
            return out
        # several candidate inputs (smallest first): the first one that reproduces on the real code is reported
        first = None
        for hi, hit in enumerate(hits[:4]):
            o_ = _replay_hit(job, unit, hit, dict(out), jd, lw, ast, fn, stub_fns, gtext, text, stubs, real_fns)
            if first is None:
                first = o_
            if o_.get('reproduced'):
                return o_
        return first
    except (R.Undecided, LowerError) as e:
        out['note'] = 'concretisation aborted: ' + str(e)
        return out
    except Exception as e:
        out['note'] = 'concretisation crashed: ' + repr(e) + traceback.format_exc()[-600:]
        return out


def _replay_hit(job, unit, hit, out, jd, lw, ast, fn, stub_fns, gtext, text, stubs, real_fns=()):
    """native replay of one concretised input against the real headers"""
    try:
        prop, desc, vals, hg, htext = hit
        out['cex_property'] = prop
        out['cex_description'] = desc
        out['inputs'] = {hg.paths.get(n, n): vals.get(n, 0) for n, t in hg.inputs}
        out['ensures'] = job['specs'][fn].get('ensures', [])
        out['requires'] = job['specs'][fn].get('requires', [])
        with open(os.path.join(jd, 'inputs.h'), 'w') as f:
            for n, t in hg.inputs:
                f.write('#define QX_VAL_%s 0x%xULL\n' % (n, vals.get(n, 0) & 0xFFFFFFFFFFFFFFFF))
        # native replay against the real headers
        wrap_fns = [cn for cn, inf in lw.fn_info.items() if cn == fn]
        wcpp = RP.wrapper_cpp(lw, os.path.join(VERIF, 'inst', unit['driver'].replace('.cpp', '.hpp')), wrap_fns, stub_fns, ast=ast, real_fns=real_fns)
        wfile = os.path.join(jd, 'wrapper.cpp')
        with open(wfile, 'w') as f:
            f.write(wcpp)
        # the native harness links the REAL function (wrapper) -- the lowered body of fn is compiled out
        nat_c = os.path.join(jd, 'native.c')
        with open(nat_c, 'w') as f:
            f.write(RP.NATIVE_PRE + '#include "inputs.h"\n' + gtext + job.get('native_pre', job.get('pre', '')) + '\n' + text + '\n' +
                    job.get('extra', '') + '\n' + stubs + '\n' + htext + '\nint main(void) { qx_harness(); return qx_failed; }\n')
        exe = os.path.join(jd, 'replay')
        defs = ['-D' + d for d in unit.get('defines', ())]
        san = ['-fsanitize=address,undefined', '-fno-sanitize-recover=undefined', '-g', '-O0']
        rc1, o1 = RP.run(['gcc', '-std=gnu11', '-DQX_NATIVE', '-w', '-c', nat_c, '-o', os.path.join(jd, 'native.o')] + san, cwd=jd)
        rc2, o2 = RP.run(['g++', '-std=c++17', '-w', '-fno-access-control', '-I', R.INCLUDE, '-I', os.path.join(VERIF, 'inst'), '-c', wfile,
                          '-o', os.path.join(jd, 'wrapper.o')] + san + defs + list(unit.get('cflags', ())), cwd=jd)
        if rc1 != 0 or rc2 != 0:
            out['note'] = 'native replay does not compile: ' + (o1 + o2)[-1200:]
            return out
        rc3, o3 = RP.run(['g++', os.path.join(jd, 'native.o'), os.path.join(jd, 'wrapper.o'), '-o', exe] + san, cwd=jd)
        if rc3 != 0:
            out['note'] = 'native replay does not link: ' + o3[-1200:]
            return out
        rc4, o4 = RP.run([exe], timeout=60, cwd=jd, env=dict(os.environ, ASAN_OPTIONS='detect_leaks=0:alloc_dealloc_mismatch=0'))
        out['native_output'] = o4 if len(o4) < 3000 else o4[:2200] + '\n...\n' + o4[-600:]
        out['native_rc'] = rc4
        # ghost-return values are not observable on the real code; postconditions that mention them are
        # re-evaluated natively through the ghost-free formulation when the spec provides one
        if 'QX-ASSUME-FALSE' in o4:
            out['note'] = 'native run rejected the input (assumption false)'
        elif 'QX-LOWERING-MISMATCH' in o4:
            out['note'] = 'lowered code and real code disagree on this input: extraction problem, not a violation'
            out['lowering_mismatch'] = True
        elif 'QX-START' not in o4:
            out['note'] = 'native replay did not start'
        elif 'QX-ASSERT-FAILED' in o4 or 'AddressSanitizer' in o4 or re.search(r'Include/\w+\.hpp:\d+:\d+: runtime error', o4) or rc4 in (-8, -11, -6, -4, 134, 136, 139, -9):
            out['reproduced'] = True
        return out
    except (R.Undecided, LowerError) as e:
        out['note'] = 'concretisation aborted: ' + str(e)
        return out
    except Exception as e:
        out['note'] = 'concretisation crashed: ' + repr(e) + traceback.format_exc()[-600:]
        return out


def validate_lowering(job, unit, workdir, seed, iters=20000):
    """translation check on every run: the lowered C of the function under contract and the real C++ function are run natively on the same
    random/boundary inputs (drawn under the contract's preconditions) and must agree on return value, out-parameters and buffers.
    returns dict(fn, status ok|mismatch|skipped, executions, note)"""
    fn = job['fn']
    out = dict(fn=fn, status='skipped', executions=0, note='')
    try:
        ast = R.get_ast(workdir, unit['driver'], unit.get('defines', ()), unit.get('cflags', ()))
        gspecs = {k: {kk: vv for kk, vv in v.items() if kk in ('ghost_returns',)} for k, v in job.get('specs', {}).items()}
        text, lw = R.lowered_text(ast, job['roots'], gspecs, cuts=job.get('cuts', ()), line_directives=False, drop_contracts=True, cut_qual=job.get('cut_qual', ()), uncut_qual=job.get('uncut_qual', ()))
        if fn not in lw.fn_info or not lw.fn_info[fn]['has_body']:
            out['note'] = 'no body'
            return out
        ghosts = job.get('ghosts', [])
        fx = dict(job.get('fixed') or {})
        fx.update(job.get('fixed_args') or {})
        if job.get('sweep'):
            vs = job['sweep'][1]
            fx[job['sweep'][0]] = vs[len(vs) // 2]
        hg = RP.HarnessGen(lw, fn, job['specs'][fn], ghosts, K=max(6, int(job.get('harness_K', 6)) if job.get('sweep') else 6), fixed=fx)
        hg.always_both = True
        hg.native_skip_ensures = True
        hg.native_skip_bv_requires = False
        if job.get('native_skip_ensures') and any('bv_t' in r or 'dw_t' in r for r in job['specs'][fn].get('requires', [])):
            out['note'] = 'preconditions need a bit-vector wider than any native type: inputs cannot be drawn under the contract'
            return out
        htext = hg.build()
        stubs = ''
        stub_fns = []
        real_fns = []
        for cn, inf in lw.fn_info.items():
            if not inf['has_body']:
                if not inf['qualname'].startswith('QV::') and ast.fn_def.get(inf['mangled']) is not None and job.get('cut_qual'):
                    # object code behind a contract (cut by qualified name): the lowered caller runs the REAL callee natively,
                    # so that the comparison is about the caller's translation and not about the stub
                    real_fns.append(cn)
                    continue
                body = job.get('specs', {}).get(cn, {}).get('stub_body')
                if body is None:
                    out['note'] = 'no stub body for cut callee %s' % cn
                    return out
                stubs += lw.proto(inf['node']) + '\n{\n' + body + '\n}\n'
                stub_fns.append(cn)
        tdefs = 'typedef unsigned short qx_char16;\ntypedef unsigned int qx_char32;\ntypedef int qx_wchar;\n'
        gtext = tdefs + ''.join('%s %s;\n' % (t, g) for t, g in ghosts)
        jd = os.path.join(workdir, 'val_' + R.safe_name(job['name']))
        os.makedirs(jd, exist_ok=True)
        nat_c = os.path.join(jd, 'validate.c')
        with open(nat_c, 'w') as f:
            f.write(RP.VALIDATE_PRE + gtext + job.get('native_pre', job.get('pre', '')) + '\n' + text + '\n' + job.get('extra', '') + '\n' + stubs + '\n' + htext +
                    '\nint main(void) { qx_state ^= %dULL * 2654435761ULL; for (long i = 0; i < %d; i++) qx_harness();\n'
                    '  printf("QX-VALIDATED done=%%lu skipped=%%lu mismatches=%%lu\\n", qx_done, qx_skipped, qx_mism); return qx_mism ? 1 : 0; }\n' % (seed + 1, iters))
        wcpp = RP.wrapper_cpp(lw, os.path.join(VERIF, 'inst', unit['driver'].replace('.cpp', '.hpp')), [fn], stub_fns, ast=ast, real_fns=real_fns)
        wfile = os.path.join(jd, 'wrapper.cpp')
        with open(wfile, 'w') as f:
            f.write(wcpp)
        defs = ['-D' + d for d in unit.get('defines', ())]
        rc1, o1 = RP.run(['gcc', '-std=gnu11', '-DQX_NATIVE', '-w', '-O1', '-c', nat_c, '-o', os.path.join(jd, 'v.o')], cwd=jd)
        rc2, o2 = RP.run(['g++', '-std=c++17', '-w', '-O1', '-fno-access-control', '-I', R.INCLUDE, '-I', os.path.join(VERIF, 'inst'), '-c', wfile,
                          '-o', os.path.join(jd, 'w.o')] + defs + list(unit.get('cflags', ())), cwd=jd)
        if rc1 != 0 or rc2 != 0:
            out['note'] = 'does not compile natively: ' + (o1 + o2)[-300:]
            return out
        rc3, o3 = RP.run(['g++', os.path.join(jd, 'v.o'), os.path.join(jd, 'w.o'), '-o', os.path.join(jd, 'validate')], cwd=jd)
        if rc3 != 0:
            out['note'] = 'does not link: ' + o3[-300:]
            return out
        rc4, o4 = RP.run([os.path.join(jd, 'validate')], timeout=120, cwd=jd)
        m = re.search(r'QX-VALIDATED done=(\d+) skipped=(\d+) mismatches=(\d+)', o4)
        if not m:
            out['note'] = 'validation run crashed: rc=%s %s' % (rc4, o4[-200:])
            return out
        out['executions'] = int(m.group(1))
        out['status'] = 'ok' if int(m.group(3)) == 0 else 'mismatch'
        out['note'] = o4[-200:] if out['status'] == 'mismatch' else ''
        return out
    except (R.Undecided, LowerError) as e:
        out['note'] = str(e)[:200]
        return out
    except Exception as e:
        out['note'] = 'validation harness error: %r' % (e,)
        return out


def proto_only(text, lw, fn):
    return text


def main():
    ap = argparse.ArgumentParser()
    ap.add_argument('pid', nargs='?')
    ap.add_argument('--tier', default=os.environ.get('VERIF_TIER', 'quick'))
    ap.add_argument('--replay')
    ap.add_argument('--jobs', help='regex: run only jobs whose name matches')
    ap.add_argument('--keep', action='store_true', help='keep the scratch directory')
    ap.add_argument('--par', type=int, default=int(os.environ.get('QX_PAR', '16')))
    a = ap.parse_args()
    if a.replay:
        return do_replay(a.replay)
    pid = a.pid
    seed = int(os.environ.get('VERIF_SEED', '0') or 0)
    t0 = time.time()
    workdir = tempfile.mkdtemp(prefix='qx_%s_' % pid, dir=os.environ.get('QX_TMP', '/var/tmp'))
    code = 2
    try:
        code = run_property(pid, a.tier, seed, workdir, t0, a)
    finally:
        if not a.keep:
            shutil.rmtree(workdir, ignore_errors=True)
        else:
            print('scratch kept at', workdir)
    sys.exit(code)


OUT = os.environ.get('QX_OUT', VERIF)   # seeded-change experiments write their evidence/replays elsewhere


def run_property(pid, tier, seed, workdir, t0, a):
    def log(*x):
        print(*x, flush=True)
    m = load_spec(pid)
    jobs = m.jobs(tier)
    if a.jobs:
        jobs = [j for j in jobs if re.search(a.jobs, j['name'])]
    log('check %s tier=%s: %d jobs' % (pid, tier, len(jobs)))
    assert len(set(R.safe_name(j['name']) for j in jobs)) == len(jobs), 'job names must be unique'
    # canary jobs: same contract + an unsatisfiable postcondition that must FAIL (else requires is contradictory)
    canaries = []
    for j in jobs:
        if j.get('mode', 'dfcc') == 'dfcc' and j.get('canary', True):
            c = dict(j)
            c['name'] = j['name'] + '#canary'
            c.pop('scope_re', None)
            sp = {k: dict(v) for k, v in j['specs'].items()}
            sp[j['fn']]['ensures'] = list(sp[j['fn']].get('ensures', [])) + ['0 == 1']
            c['specs'] = sp
            nens = len(sp[j['fn']]['ensures'])
            c['properties'] = ['%s.postcondition.%d' % (j['fn'], nens)]
            c['checks'] = []
            c['is_canary'] = True
            c['must_have'] = []
            canaries.append(c)
    all_jobs = [(j, j['unit']) for j in jobs] + [(c, c['unit']) for c in canaries]
    results = R.run_jobs(all_jobs, workdir, par=a.par, log=log)
    # lowering validation (translation check), one native differential run per function under contract
    vals = []
    seen = set()
    vjobs = []
    for j in jobs:
        key = (j.get('fn'), j['unit']['driver'], tuple(j['unit'].get('defines', ())), tuple(sorted((j.get('fixed_args') or {}).items())))
        if j.get('mode', 'dfcc') not in ('dfcc', 'harness') or key in seen or j.get('fn') not in j.get('specs', {}):
            continue
        seen.add(key)
        vjobs.append(j)
    from concurrent.futures import ThreadPoolExecutor as _TPE
    with _TPE(max_workers=8) as ex:
        vals = list(ex.map(lambda j: validate_lowering(j, j['unit'], workdir, seed), vjobs))
    vbad = [v for v in vals if v['status'] == 'mismatch']
    log('  lowering validation: %d functions, %d executions, %d mismatches, %d skipped' % (
        len(vals), sum(v['executions'] for v in vals), len(vbad), sum(1 for v in vals if v['status'] == 'skipped')))
    main_res = [r for r in results if not r.job.get('is_canary')]
    can_res = [r for r in results if r.job.get('is_canary')]
    undecided = [r for r in main_res if r.status == 'undecided']
    failed = [r for r in main_res if r.status == 'fail']
    canary_bad = []
    for r in can_res:
        tot, ok, bad = r.counts()
        if r.status != 'fail':
            canary_bad.append(r)
    known = [k for k in load_known() if k.get('property') == pid]
    violations = []
    kf_lines = []
    shutil.rmtree(os.path.join(OUT, 'replays', pid), ignore_errors=True)
    os.makedirs(os.path.join(OUT, 'replays', pid), exist_ok=True)
    for r in failed:
        tot, ok, bad = r.counts()
        cx = concretise(r.job, r.job['unit'], r, workdir, log)
        fresh = []
        for o in bad:
            kf = match_known(known, r.name, o, cx)
            if kf:
                kf_lines.append('KNOWN-FINDING: property=%s %s: %s (witness: %s) [job %s]' % (pid, kf['id'], kf['what'].split('. ')[0], kf.get('witness', '-')[:160], r.name))
                o['known_finding'] = kf['id']
            else:
                fresh.append(o)
        if not fresh:
            continue
        _int = lambda o: bool(re.search(r'\.(loop_invariant_base|loop_invariant_step|loop_assigns|loop_decreases|loop_step_unwinding)\.\d+$', o['name']))
        fresh.sort(key=lambda o: (1 if _int(o) else 0))
        internal = all(re.search(r'\.(loop_invariant_base|loop_invariant_step|loop_assigns|loop_decreases|loop_step_unwinding)\.\d+$', o['name']) for o in fresh)
        if internal and not cx.get('reproduced'):
            # only proof-internal obligations (invariant / variant) failed and the bounded concretisation has no failing
            # input: the proof no longer goes through, but no property clause is refuted -> undecided, not a violation
            r.status = 'undecided'
            r.reason = 'proof-internal obligations failed (%s) and no failing input exists up to the concretisation bound: invariant needs maintenance' % ', '.join(o['name'].split('.', 1)[1] for o in fresh[:4])
            undecided.append(r)
            continue
        # primary obligation: the first failing postcondition / memory-safety check; consequences listed after it
        rec = dict(property=pid, job=r.name, clause=r.job.get('clause', ''),
                   obligation=fresh[0]['name'], description=fresh[0]['description'], source='%s:%s' % (fresh[0]['file'], fresh[0]['line']),
                   failed_obligations=[dict(name=o['name'], description=o['description'], source='%s:%s' % (o['file'], o['line'])) for o in fresh],
                   cbmc_cmds=r.cmds, cbmc_log=r.log[-2000:], concretisation=cx)
        path = os.path.join(OUT, 'replays', pid, R.safe_name(r.name) + '.json')
        with open(path, 'w') as f:
            json.dump(rec, f, indent=1, default=str)
        violations.append((path, cx.get('reproduced')))
    # an undecided modular proof (restructured loops, broken invariant, solver limit) is followed by a bounded search of the
    # same function for a concrete counterexample to its contract; only a natively reproduced input turns it into a violation
    still_undecided = []
    for r in undecided:
        if r.job.get('mode', 'dfcc') != 'dfcc' or not os.environ.get('QX_BOUNDED_FALLBACK', '1') == '1':
            still_undecided.append(r)
            continue
        cx = concretise(r.job, r.job['unit'], r, workdir, log)
        if cx.get('reproduced'):
            rec = dict(property=pid, job=r.name, clause=r.job.get('clause', ''), obligation='bounded-search:' + str(cx.get('cex_property')),
                       description='modular proof undecided (%s); bounded search of the same function under the same contract found an input that fails on the real code' % r.reason[:200],
                       source='', failed_obligations=[], cbmc_cmds=r.cmds, cbmc_log=r.log[-1000:], concretisation=cx)
            path = os.path.join(OUT, 'replays', pid, R.safe_name(r.name) + '.json')
            with open(path, 'w') as f:
                json.dump(rec, f, indent=1, default=str)
            violations.append((path, True))
        else:
            still_undecided.append(r)
    undecided = still_undecided
    for l in sorted(set(kf_lines)):
        log(l)
    # evidence
    ev = evidence(pid, tier, seed, m, main_res, can_res, time.time() - t0, len(violations), canary_bad, undecided)
    ev['coverage']['lowering_validation'] = dict(functions=len(vals), executions=sum(v['executions'] for v in vals), mismatches=len(vbad),
                                                 skipped=[dict(fn=v['fn'], why=v['note'][:160]) for v in vals if v['status'] == 'skipped'][:40],
                                                 rule='lowered C and real C++ run natively on the same seeded random/boundary inputs that satisfy the preconditions; return value, out-parameters and buffers must be identical')
    os.makedirs(os.path.join(OUT, 'evidence'), exist_ok=True)
    if not a.jobs:
        with open(os.path.join(OUT, 'evidence', pid + '.json'), 'w') as f:
            json.dump(ev, f, indent=1)
    for path, rep in violations:
        log('VIOLATION property=%s replay=%s%s' % (pid, path, '' if rep else ' no-failing-input-found'))
    if violations:
        return 1
    for v in vbad:
        log('UNDECIDED lowering validation mismatch for %s: %s' % (v['fn'], v['note']))
    if vbad and not violations:
        return 2
    if undecided or canary_bad:
        for r in undecided:
            log('UNDECIDED %s: %s' % (r.name, r.reason[:600]))
        for r in canary_bad:
            log('UNDECIDED canary %s did not fail (status %s %s): contradictory requires?' % (r.name, r.status, r.reason[:300]))
        return 2
    tot = sum(len(r.obligations) for r in main_res)
    log('PASS %s: %d obligations discharged in %d jobs, %d canaries failed as required, %.1fs' % (pid, tot, len(main_res), len(can_res), time.time() - t0))
    return 0


def match_known(known, jobname, o, cx):
    for k in known:
        if k.get('state') != 'open':
            continue
        if re.search(k['job'], jobname) and re.search(k['obligation'], o['name']):
            return k
    return None


def evidence(pid, tier, seed, m, main_res, can_res, wall, nviol, canary_bad, undecided):
    obligations = sum(len(r.obligations) for r in main_res)
    discharged = sum(1 for r in main_res for o in r.obligations if o['status'] == 'SUCCESS')
    by_solver = {}
    fns = {}
    samples = []
    jobs = []
    assumes = set()
    for r in main_res:
        s = r.job.get('solver') or 'minisat'
        d = by_solver.setdefault(s, dict(jobs=0, obligations=0, discharged=0, seconds=0.0))
        d['jobs'] += 1
        d['obligations'] += len(r.obligations)
        d['discharged'] += sum(1 for o in r.obligations if o['status'] == 'SUCCESS')
        d['seconds'] = round(d['seconds'] + r.solver_seconds, 2)
        for f in r.functions:
            if f['has_body'] and (f['cname'] == r.job.get('fn') or f['cname'] in r.job.get('also_verified', ())):
                fns[f['cname']] = dict(qualname=f['qualname'], source='%s:%s-%s' % (os.path.basename(f['file']), f['lines'][0], f['lines'][1]), ast_hash=f['hash'])
        for o in r.obligations[:400]:
            if len(samples) < 12 and ('postcondition' in o['name'] or 'loop_invariant' in o['name'] or 'assertion' in o['name']):
                samples.append('%s: %s [%s] @%s:%s' % (r.name, o['name'], o['description'], os.path.basename(o['file']), o['line']))
        for x in r.assumes:
            assumes.add(x[:200])
        kfo = [o for o in r.obligations if o.get('known_finding')]
        jobs.append(dict(name=r.name, mode=r.job.get('mode', 'dfcc'), function=r.job.get('fn'), clause=r.job.get('clause', ''), status=r.status, reason=r.reason[:300],
                         known_finding_obligations=[dict(name=o['name'], finding=o['known_finding']) for o in kfo],
                         obligations=len(r.obligations) - len(kfo), discharged=sum(1 for o in r.obligations if o['status'] == 'SUCCESS'),
                         solver=s, solver_seconds=round(r.solver_seconds, 2), replaced_callees=r.job.get('replace', []),
                         bounded=r.job.get('bounded'), cmds=r.cmds[-3:]))
    bounded = [j for j in jobs if j.get('bounded')]
    proved = [j for j in jobs if not j.get('bounded')]
    ev = dict(
        property_id=pid, tier=tier, seed=seed, level='proof',
        coverage=dict(
            obligations=sum(j['obligations'] for j in proved), discharged=sum(j['discharged'] for j in proved),
            checker_cmd='goto-cc --function qx_harness job.c; goto-instrument --dfcc qx_harness --enforce-contract <fn> [--replace-call-with-contract <callee>] --apply-loop-contracts; cbmc --json-ui <checks> [solver]  (exact lines per job under coverage.jobs[].cmds)',
            trusted_base=getattr(m, 'TRUSTED', []) + BASE_TRUST,
            functions_under_contract=fns, back_ends=by_solver, jobs=jobs,
            bounded_checks=[dict(name=j['name'], bound=j['bounded'], obligations=j['obligations'], discharged=j['discharged']) for j in bounded],
            canaries=dict(run=len(can_res) + sum(1 for r in main_res if r.canary), failed_as_required=len(can_res) - len(canary_bad) + sum(1 for r in main_res if r.canary)),
            undecided=[dict(name=r.name, reason=r.reason[:300]) for r in undecided],
            assume_statements_in_generated_text=sorted(assumes)[:50],
            samples=samples or ['(no obligations)'],
            explanation=getattr(m, 'EXPLANATION', ''),
        ),
        assumptions=getattr(m, 'ASSUMPTIONS', []) + BASE_ASSUME,
        wall_s=round(wall, 2), violations=nviol)
    return ev


BASE_TRUST = [
    'clang 14 AST of the real instantiations is faithful; qx/lower.py (cfront-style lowering, DESIGN 3.1) preserves semantics',
    'CBMC 6.11 goto-instrument --dfcc contract instrumentation and the SAT/SMT back ends are sound',
    '__CPROVER_is_fresh / malloc model: allocation never fails; SizeT is 32-bit, pointers 64-bit, little endian',
]
BASE_ASSUME = [
    'reference parameters denote valid, pairwise non-aliased objects (is_fresh)',
    'recursion termination is not checked by dfcc',
]


def do_replay(path):
    rec = json.load(open(path))
    print(json.dumps({k: rec.get(k) for k in ('property', 'job', 'clause', 'obligation', 'description', 'source', 'failed_obligations')}, indent=1))
    cx = rec.get('concretisation', {})
    print('inputs:', cx.get('inputs'))
    print('reproduced natively:', cx.get('reproduced'))
    print(cx.get('native_output', ''))
    print(cx.get('note', ''))
    return 0


if __name__ == '__main__':
    main()
