#!/bin/bash
# runs every seeded change against the quick check of the property it breaks (scratch copies, see seedtest.sh), three at a time,
# rewrites seeded/LAST_BATCH.txt, seeded/*/meta.json and the table in DESIGN.md section 11
cd /verif
T=$(mktemp -d /var/tmp/qx_seedall.XXXXXX)
ls -d seeded/C*-* | xargs -n1 basename | xargs -P 3 -I{} sh -c 's={}; p=${s%%-*}; { echo "=== $s"; ./seedtest.sh $s $p; } > '"$T"'/$s.txt 2>&1'
cat $T/*.txt > seeded/LAST_BATCH.txt
rm -rf $T
python3 seedmeta.py seeded/LAST_BATCH.txt
python3 seedtable.py
