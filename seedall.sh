#!/bin/bash
# runs every seeded change against the quick check of the property it breaks (scratch copies, see seedtest.sh),
# rewrites seeded/LAST_BATCH.txt, seeded/*/meta.json and the table in DESIGN.md section 11
cd /verif
out=seeded/LAST_BATCH.txt; : > $out.new
for d in seeded/C*-*; do
  s=$(basename $d); p=${s%%-*}
  echo "=== $s" >> $out.new
  ./seedtest.sh $s $p >> $out.new 2>&1
done
mv $out.new $out
python3 seedmeta.py $out
python3 seedtable.py
